#!/venv/bin/python
"""Sensitivity: apply a patch to a scratch copy of the package (outside /repo
and /verif), run the mapped checks against it and expect exit 1.

    tools/mutate.py mutants/C19__naive-variance.patch [--tier quick] [--ids C19]
    tools/mutate.py --all [--jobs 4]

Patch file names are <ID>[+<ID>...]__<name>.patch; paths inside are relative
to the repository root.  Evidence and violation files of these runs go to the
scratch directory, never to /verif/evidence."""
import os
import sys
import glob
import shutil
import argparse
import tempfile
import subprocess
import concurrent.futures

VERIF = os.path.dirname(os.path.dirname(os.path.abspath(__file__)))
REPO = os.environ.get("VERIF_REPO", "/repo")


def run_one(patch, ids, tier, keep=False, verbose=False):
    scratch = tempfile.mkdtemp(prefix="xv-mut-", dir="/tmp")
    try:
        shutil.copytree(os.path.join(REPO, "xyzpy"),
                        os.path.join(scratch, "xyzpy"),
                        ignore=shutil.ignore_patterns("__pycache__"))
        p = subprocess.run(["patch", "-p1", "-s", "-d", scratch, "-i",
                            os.path.abspath(patch)],
                           capture_output=True, text=True)
        if p.returncode != 0:
            return [(patch, "-", "PATCH-FAILED", p.stdout + p.stderr)]
        out = []
        for pid in ids:
            env = dict(os.environ, VERIF_REPO=scratch,
                       XV_EVIDENCE_DIR=os.path.join(scratch, "evidence"),
                       XV_OUT=os.path.join(scratch, "out"))
            r = subprocess.run([os.path.join(VERIF, "check"), pid,
                                "--tier", tier],
                               env=env, capture_output=True, text=True)
            hit = r.returncode == 1 and "VIOLATION property=" in r.stdout
            tail = "\n".join(
                l for l in r.stdout.splitlines()
                if l.startswith(("---", "VIOLATION", "HARNESS")))[:600]
            if verbose:
                tail = r.stdout[-3000:] + r.stderr[-1500:]
            out.append((os.path.basename(patch), pid,
                        "CAUGHT" if hit else f"MISSED(exit={r.returncode})",
                        tail))
        return out
    finally:
        if not keep:
            shutil.rmtree(scratch, ignore_errors=True)


def ids_of(patch):
    return os.path.basename(patch).split("__")[0].split("+")


def main():
    ap = argparse.ArgumentParser()
    ap.add_argument("patches", nargs="*")
    ap.add_argument("--all", action="store_true")
    ap.add_argument("--tier", default="quick")
    ap.add_argument("--ids")
    ap.add_argument("--jobs", type=int, default=1)
    ap.add_argument("-v", action="store_true")
    a = ap.parse_args()
    patches = a.patches
    if a.all:
        patches = sorted(glob.glob(os.path.join(VERIF, "mutants", "*.patch")))
        if a.ids:
            want = set(a.ids.split(","))
            patches = [p for p in patches if want & set(ids_of(p))]
    missed = 0
    with concurrent.futures.ThreadPoolExecutor(a.jobs) as ex:
        futs = [ex.submit(run_one, p,
                          a.ids.split(",") if (a.ids and not a.all)
                          else ids_of(p), a.tier, False, a.v)
                for p in patches]
        for f in futs:
            for patch, pid, verdict, tail in f.result():
                print(f"{verdict:18s} {pid:4s} {patch}")
                if a.v or not verdict.startswith("CAUGHT"):
                    print("   " + tail.replace("\n", "\n   "))
                if not verdict.startswith("CAUGHT"):
                    missed += 1
    return 1 if missed else 0


if __name__ == "__main__":
    sys.exit(main())
