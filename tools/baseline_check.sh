#!/bin/bash
# Run the repository's pinned suite (guard off: there are no hooks) and verify every stable_pass test still passes.
cd /repo && /venv/bin/python -m pytest -q -p no:cacheprovider --timeout=900 --continue-on-collection-errors --junitxml=/tmp/xv-baseline.junit.xml >/tmp/xv-baseline.log 2>&1
/venv/bin/python - <<'PY'
import json, xml.etree.ElementTree as ET
base = json.load(open('/root/.vp/BASELINE.json'))
root = ET.parse('/tmp/xv-baseline.junit.xml').getroot()
status = {}
for tc in root.iter('testcase'):
    name = f"{tc.get('classname')}::{tc.get('name')}"
    bad = any(ch.tag in ('failure', 'error', 'skipped') for ch in tc)
    status[name] = not bad
missing = [t for t in base['stable_pass'] if not status.get(t)]
print(f"stable_pass {len(base['stable_pass'])}; now passing {sum(status.values())}; stable tests not passing: {len(missing)}")
for m in missing[:20]: print("  ", m)
raise SystemExit(1 if missing else 0)
PY
