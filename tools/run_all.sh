#!/bin/bash
# tools/run_all.sh <tier> [seed] [ids...] : run checks, print one line per check
tier=${1:-quick}; seed=${2:-0}; shift; shift
ids=${@:-C01 C02 C03 C04 C05 C06 C07 C08 C09 C10 C11 C12 C13 C14 C15 C16 C17 C18 C19 C20}
cd "$(dirname "$0")/.."
for p in $ids; do
  [ -f xv/props/$p.py ] || continue
  out=$(XV_EVIDENCE_DIR=${XV_EVIDENCE_DIR:-} VERIF_SEED=$seed timeout ${XV_TIMEOUT:-3600} ./check $p --tier $tier 2>&1); rc=$?
  echo "rc=$rc $(echo "$out" | grep -E "^$p tier" | head -1)"
  echo "$out" | grep -E "^(VIOLATION|HARNESS-ERROR property|---)" | head -6
done
