#!/venv/bin/python
"""Independent (sub-agent written) property-breaking changes.

    tools/seeded.py import <worktree>/seed/<X> <name> --property C04
        copy patch.diff / demo.py / README.md into seeded/<name>/ and verify:
        demo passes on the clean tree, patch applies, demo fails with it, the
        repository's test-suite still passes with it.
    tools/seeded.py run [<name>...] [--tier quick]
        run the mapped check(s) against each seeded change (scratch copy of
        the package, never /repo) and record which checks catch it.

Everything is done on scratch copies outside /repo and /verif."""
import os
import sys
import json
import glob
import shutil
import argparse
import tempfile
import subprocess

VERIF = os.path.dirname(os.path.dirname(os.path.abspath(__file__)))
REPO = "/repo"
PY = "/venv/bin/python"


def scratch_tree():
    d = tempfile.mkdtemp(prefix="xv-seed-", dir="/tmp")
    for item in ("xyzpy", "tests", "setup.py", "pyproject.toml"):
        src = os.path.join(REPO, item)
        if os.path.isdir(src):
            shutil.copytree(src, os.path.join(d, item),
                            ignore=shutil.ignore_patterns("__pycache__"))
        elif os.path.exists(src):
            shutil.copy(src, d)
    return d


def run(cmd, cwd, env=None, timeout=1800):
    e = dict(os.environ, PYTHONPATH=cwd, MPLBACKEND="Agg", TQDM_DISABLE="1")
    e.update(env or {})
    return subprocess.run(cmd, cwd=cwd, env=e, capture_output=True,
                          text=True, timeout=timeout)


def test_status(tree, plot):
    """-> set of failing test ids (or None on collection problem)."""
    targets = ["tests/test_gen", "tests/test_utils.py", "tests/test_manage.py"]
    if plot:
        targets.append("tests/test_plot.py")
    r = run([PY, "-m", "pytest", "-q", "-p", "no:cacheprovider", "-rf",
             "--timeout=900"] + targets, tree)
    failed = set()
    for line in r.stdout.splitlines():
        if line.startswith("FAILED "):
            failed.add(line.split()[1])
    return failed


def do_import(args):
    src = args.source
    dst = os.path.join(VERIF, "seeded", args.name)
    os.makedirs(dst, exist_ok=True)
    for f in ("patch.diff", "demo.py", "README.md"):
        if os.path.exists(os.path.join(src, f)):
            shutil.copy(os.path.join(src, f), os.path.join(dst, f))
    plot = args.property in ("C17", "C18")
    tree = scratch_tree()
    meta = {"property": args.property, "name": args.name,
            "source": "independent sub-agent given only the property text "
                      "and a scratch worktree",
            "verified": {}}
    try:
        base_fail = test_status(tree, plot)
        r0 = run([PY, os.path.join(dst, "demo.py")], tree, timeout=900)
        meta["verified"]["demo_passes_on_clean_tree"] = r0.returncode == 0
        p = subprocess.run(["git", "apply", "--unsafe-paths", "--directory",
                            tree, os.path.join(dst, "patch.diff")],
                           cwd="/", capture_output=True, text=True)
        if p.returncode != 0:
            p = subprocess.run(["patch", "-p1", "-s", "-d", tree, "-i",
                                os.path.join(dst, "patch.diff")],
                               capture_output=True, text=True)
        meta["verified"]["patch_applies"] = p.returncode == 0
        r1 = run([PY, os.path.join(dst, "demo.py")], tree, timeout=900)
        meta["verified"]["demo_fails_with_change"] = r1.returncode != 0
        meta["verified"]["demo_output_with_change"] = \
            (r1.stdout + r1.stderr)[-600:]
        new_fail = test_status(tree, plot)
        meta["verified"]["new_test_failures"] = sorted(new_fail - base_fail)
        meta["verified"]["existing_tests_still_pass"] = \
            not (new_fail - base_fail)
        meta["what_i_ran"] = [
            "scratch copy of /repo (xyzpy + tests) under /tmp",
            "demo.py on the clean copy (must exit 0)",
            "git apply patch.diff; demo.py again (must exit non-zero)",
            "pytest tests/test_gen tests/test_utils.py tests/test_manage.py"
            + (" tests/test_plot.py" if plot else "")
            + " before and after: no new failures allowed",
        ]
    finally:
        shutil.rmtree(tree, ignore_errors=True)
    readme = os.path.join(dst, "README.md")
    if os.path.exists(readme):
        meta["needs_to_manifest"] = open(readme).read()[:1500]
    ok = all(meta["verified"].get(k) for k in
             ("demo_passes_on_clean_tree", "patch_applies",
              "demo_fails_with_change", "existing_tests_still_pass"))
    meta["kept"] = ok
    with open(os.path.join(dst, "meta.json"), "w") as f:
        json.dump(meta, f, indent=1, sort_keys=True)
    print(("KEPT    " if ok else "REJECTED"), args.name,
          {k: v for k, v in meta["verified"].items()
           if k != "demo_output_with_change"})
    return 0 if ok else 1


def do_run(args):
    names = args.names or sorted(
        os.path.basename(d) for d in glob.glob(os.path.join(VERIF, "seeded",
                                                            "*"))
        if os.path.exists(os.path.join(d, "meta.json")))
    rc = 0
    for name in names:
        d = os.path.join(VERIF, "seeded", name)
        meta = json.load(open(os.path.join(d, "meta.json")))
        if not meta.get("kept"):
            continue
        # (a change may concern something its own property's check has no
        # handle on - e.g. a farmer's resources for the plain-crop property -
        # and is then run against the checks named in ``checked_by``)
        ids = args.ids.split(",") if args.ids else \
            meta.get("checked_by") or [meta["property"]]
        scratch = tempfile.mkdtemp(prefix="xv-seedrun-", dir="/tmp")
        try:
            shutil.copytree(os.path.join(REPO, "xyzpy"),
                            os.path.join(scratch, "xyzpy"),
                            ignore=shutil.ignore_patterns("__pycache__"))
            p = subprocess.run(["patch", "-p1", "-s", "-d", scratch, "-i",
                                os.path.join(d, "patch.diff")],
                               capture_output=True, text=True)
            if p.returncode != 0:
                print("PATCH-FAILED", name, p.stdout[-300:])
                rc = 1
                continue
            res = meta.setdefault("detection", {})
            for pid in ids:
                env = dict(os.environ, VERIF_REPO=scratch,
                           XV_EVIDENCE_DIR=os.path.join(scratch, "ev"),
                           XV_OUT=os.path.join(scratch, "out"))
                r = subprocess.run([os.path.join(VERIF, "check"), pid,
                                    "--tier", args.tier], env=env,
                                   capture_output=True, text=True,
                                   timeout=7200)
                hit = r.returncode == 1 and "VIOLATION property=" in r.stdout
                keys = [l[4:] for l in r.stdout.splitlines()
                        if l.startswith("--- ")]
                res[f"{pid}:{args.tier}"] = {
                    "caught": hit, "exit": r.returncode, "keys": keys[:4]}
                print(f"{'CAUGHT' if hit else 'MISSED'}({r.returncode}) "
                      f"{pid} {args.tier} {name} {keys[:2]}")
                if not hit:
                    rc = 1
            with open(os.path.join(d, "meta.json"), "w") as f:
                json.dump(meta, f, indent=1, sort_keys=True)
        finally:
            shutil.rmtree(scratch, ignore_errors=True)
    return rc


def main():
    ap = argparse.ArgumentParser()
    sub = ap.add_subparsers(dest="cmd", required=True)
    a = sub.add_parser("import")
    a.add_argument("source")
    a.add_argument("name")
    a.add_argument("--property", required=True)
    b = sub.add_parser("run")
    b.add_argument("names", nargs="*")
    b.add_argument("--tier", default="quick")
    b.add_argument("--ids")
    args = ap.parse_args()
    return do_import(args) if args.cmd == "import" else do_run(args)


if __name__ == "__main__":
    sys.exit(main())
