#!/venv/bin/python
"""Regenerate the seeded-changes table in DESIGN.md (section 10) from
seeded/*/meta.json."""
import os, json, glob, re
HERE = os.path.dirname(os.path.dirname(os.path.abspath(__file__)))
rows = []
for d in sorted(glob.glob(os.path.join(HERE, "seeded", "*"))):
    mp = os.path.join(d, "meta.json")
    if not os.path.exists(mp):
        continue
    m = json.load(open(mp))
    if not m.get("kept"):
        continue
    readme = m.get("needs_to_manifest", "")
    first = " ".join(readme.replace("#", "").split())[:170]
    det = m.get("detection", {})
    caught = [k for k, v in det.items() if v.get("caught")]
    missed = [k for k, v in det.items() if not v.get("caught")]
    keys = sorted({kk for v in det.values() for kk in v.get("keys", [])})[:2]
    rows.append(f"| {m['name']} | {m['property']} | {first} | "
                f"{', '.join(caught) or '-'}"
                f"{(' (missed: ' + ', '.join(missed) + ')') if missed else ''}"
                f" | {'; '.join(k[:60] for k in keys)} |")
table = ("| seeded change | property | what it is / what it needs (from its "
         "README) | caught by | violation keys |\n|---|---|---|---|---|\n"
         + "\n".join(rows) + "\n")
p = os.path.join(HERE, "DESIGN.md")
s = open(p).read()
begin, end = "<!-- seeded-table-begin -->", "<!-- seeded-table-end -->"
if begin not in s:
    s = s.replace("SEEDED_TABLE_PLACEHOLDER", begin + "\n" + end)
a, b = s.index(begin) + len(begin), s.index(end)
s = s[:a] + "\n" + table + s[b:]
open(p, "w").write(s)
print(len(rows), "rows")
