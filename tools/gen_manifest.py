#!/venv/bin/python
"""Regenerate MANIFEST.json from the table below (kept in one place so the
manifest is always valid and in step with the registered checks)."""
import json
import os

HERE = os.path.dirname(os.path.dirname(os.path.abspath(__file__)))

# id -> (category, technique, level text, level note, design ref)
CHECKS = {
    "C01": (
        "exploration",
        "property-based testing (Hypothesis): nested-loop reference model + "
        "call-log multiset oracle; generated completion orders via fake "
        "executors",
        "Generated grids, spellings, constants, result shapes and execution "
        "strategies; every case is decided against a nested-loop model with an "
        "injective recording function and an exact call-log multiset.  "
        "Completion order is a generated permutation for submit- and "
        "apply_async-style executors and sampled for real pools.",
        "Values hash-distinct and not NaN; real pools (thread/process/loky) "
        "are exercised with few cases because their schedules cannot be "
        "steered.",
        "DESIGN.md section 4, C01",
    ),
    "C02": (
        "exploration",
        "property-based testing (Hypothesis): dict-of-coordinates reference "
        "model, call-log oracle, placeholder validity predicate",
        "Generated case sets (dict and tuple spellings, sub-grids, eleven "
        "result kinds, shuffle/flat/split) are decided against a model that "
        "places each requested result at its sorted-union coordinates and "
        "demands an all-missing placeholder of the result's shape elsewhere; "
        "the call log must be exactly the requested settings.  Two further "
        "phases: case arguments mixing numbers and strings (order-free "
        "multiset oracle) and several calls on one Runner / Harvester "
        "(nothing given to one call reaches the next); a few dozen points "
        "in grids of 10^4-10^5 cells; cases given as one dict.",
        "Uniform keys; where the values of one argument cannot be sorted the "
        "axis order is unspecified and only order-free facts are checked; "
        "None or NaN accepted for bool/str elements inside tuples.",
        "DESIGN.md section 4, C02",
    ),
    "C03": (
        "exploration",
        "property-based testing (Hypothesis): select-by-label oracle against "
        "the recorded return values; row-wise recomputation for DataFrames",
        "Generated runner descriptions (1-3 variables, internal dimensions, "
        "every var_names/var_dims spelling, Dataset/DataArray/dict returns, "
        "constants that do or do not name a dimension, resources, attrs) "
        "through eleven entry points with shuffle and a permuting executor; "
        "each Dataset is read back point by point by label, each DataFrame "
        "row is recomputed from its own arguments.  A second phase sweeps "
        "Dataset/DataArray-valued functions whose internal coordinate "
        "labels depend on the arguments (label-wise outer join expected).",
        "One value family per swept argument; xarray/pandas selection is "
        "trusted as the reader.",
        "DESIGN.md section 4, C03",
    ),
    "C04": (
        "exploration",
        "model-based testing of generated histories (Hypothesis): sow / grow "
        "plan / reload points / reap against the direct in-process sweep",
        "Generated inputs, batchings, shuffle settings (constructor and sow), "
        "grow plans (permutations, partitions, repeats, four ways of growing, "
        "parallel workers) and reload points - including every step in a "
        "forked fresh process - are executed against the real crop on disk; "
        "the reaped structure must deep-equal the direct sweep.",
        "Raw reaps are compared in name-sorted argument order; shuffle in "
        "{False, True, int}.",
        "DESIGN.md section 4, C04",
    ),
    "C05": (
        "exploration",
        "model-based testing of generated histories (Hypothesis) against a "
        "dict-of-coordinates model with the three overwrite policies; "
        "invariant after every step on memory and on disk",
        "Generated histories of harvest_combos / harvest_cases / add_ds / "
        "expand_dims / drop_sel / save_full_ds / new sessions / a rival "
        "long-lived session (and save_merge_ds histories), with overlapping "
        "identical or conflicting data, both engines and bare names; after "
        "every step full_ds and load_ds(data_name) are read back by label "
        "against the model; expected conflicts must raise and change "
        "nothing.  Further phases sweep date-valued arguments with a "
        "text output, and let the function gain outputs between sessions.  One open finding (un-synced data dropped by the next "
        "synced harvest) is excluded by construction and reported as "
        "KNOWN-FINDING.",
        "Values are float; label order is left to xarray; see "
        "known_findings.txt for the open finding.",
        "DESIGN.md section 4, C05",
    ),
    "C06": (
        "exploration",
        "differential property-based testing (Hypothesis): crop path vs "
        "direct path in a twin directory, plus the independent by-label "
        "oracle of C03",
        "Generated runner descriptions, inputs, batchings, grow orders and "
        "reload points for the four farmer kinds; the reaped object must "
        "equal the direct run's (coordinates, values, attrs, after aligning "
        "dimension order), be the farmer's last result, and leave the "
        "Harvester/Sampler file equal to the one a direct harvest/sample "
        "leaves - including the same refusal when the policy rejects a "
        "merge.",
        "Constants live on the Runner; the sampler's numpy RNG is seeded "
        "identically on both paths.",
        "DESIGN.md section 4, C06",
    ),
    "C07": (
        "exploration",
        "exhaustive enumeration of (N, batch spec, realisation, shuffle, "
        "farmer) with a read-back oracle on the batch files",
        "Every N up to 32 (quick) / 64 (thorough), every batchsize 1..N+1 and "
        "num_batches 1..N+2, for grids, factorised grids, case lists and "
        "cases x sub-grid, three shuffle settings, spec at construction or at "
        "sow, plain and Runner-backed crops: the batch files are unpickled "
        "and compared with the kwargs of a direct run and with the stated "
        "arithmetic; complete for the stated bounds.",
        "Bounded N; shuffle seeds {True, 7}; pickle files are read with the "
        "standard library.",
        "DESIGN.md section 4, C07",
    ),
    "C08": (
        "exploration",
        "model-based testing of generated operation histories (Hypothesis) "
        "against a (batch count, finished set) model with an invariant after "
        "every step",
        "Generated histories of sow/re-sow/grow/grow_missing/failing "
        "function/delete/corrupt+check_bad/reload are run on a real crop; "
        "after every operation all five progress queries (asked in a rotating "
        "order), the results directory and every result's content are "
        "compared with the model, and grow calls are checked for propagating "
        "failures and for calling the function on exactly the right settings.",
        "File corruption is always followed by check_bad within the same "
        "step.",
        "DESIGN.md section 4, C08",
    ),
    "C09": (
        "exploration",
        "exhaustive enumeration of finished-batch subsets with a model "
        "oracle (batch membership read from disk, placeholder predicate, "
        "directory digest)",
        "For crops of 2..5 (quick) / 2..7 (thorough) batches, every remainder "
        "class and every non-empty proper subset of finished batches is "
        "realised and reaped with allow_incomplete in nine reap modes / "
        "result kinds; finished positions must equal the direct run, all "
        "others must be placeholders, the crop directory must be "
        "byte-identical, an unqualified reap must be refused, and the "
        "completed crop must reap exactly.",
        "Raw reaps are compared in name-sorted argument order (sow_combos' "
        "documented ordering).",
        "DESIGN.md section 4, C09",
    ),
    "C10": (
        "fault_enumeration",
        "enumerated crash-point injection: forked victim killed with "
        "os._exit at every intercepted mutating file operation (and inside "
        "writes), recovery and immediate reap in fresh forked processes",
        "For each generated scenario (raw/Runner/Harvester/Sampler crop, "
        "victim = sow / re-sow / three ways of growing / reap+sync+clean-up) "
        "a dry run counts the mutating file operations; every one of them is "
        "a crash point (writes also torn at three prefixes, the C-level save "
        "call as begin/torn/end), some followed by a second crash during "
        "recovery.  After each crash an immediate reap must refuse or be "
        "exact, the documented recovery must deliver exactly the "
        "uninterrupted result, and the earlier harvested/sampled data must "
        "still be in its file.  Sampler files as pickle and csv, Harvester "
        "files with both engines, lazily loaded, and one beyond 64 MiB.",
        "Process death only (no power-loss model); HDF5/pandas writes are "
        "represented by three states of the target file; rmtree is emulated "
        "entry by entry in three listing orders.",
        "DESIGN.md section 4, C10",
    ),
    "C11": (
        "exploration",
        "schedule exploration with a harness-owned cooperative scheduler: "
        "exhaustive DFS over all interleavings for the small configurations, "
        "Hypothesis-generated schedules beyond",
        "Growers, a reap(wait=True) actor and a progress poller run as "
        "threads of which exactly one holds the baton; every observable file "
        "operation in results/ is a yield point and the schedule is a "
        "generated value.  Five small configurations are enumerated "
        "completely (about 1.9k interleavings on the current tree); 3000 "
        "(quick) / 300000 (thorough) generated schedules cover crops of 1-3 "
        "batches with up to 4 growers.  The reaper must return the exact "
        "result without error and the poller must never count a file that is "
        "not complete at that very instant; a reaper that removes the crop "
        "while a straggling grower still computes must leave it removed.",
        "Threads stand in for processes on a shared POSIX directory; file "
        "reads are snapshots; liveness is not claimed.",
        "DESIGN.md section 4, C11",
    ),
    "C12": (
        "fault_enumeration",
        "enumerated fault injection over the cross product of reap options, "
        "farmer kinds and failure stages, with a byte-level directory digest "
        "and a hook at the moment of deletion",
        "Every valid combination of clean_up x allow_incomplete x wait x "
        "farmer x failure stage (incomplete, unreadable result, wrong output "
        "description, merge conflict, save error) is run on generated crops: "
        "a failing reap must leave the crop byte-identical and the corrected "
        "retry must deliver exactly the direct-run data; a succeeding reap "
        "must remove the directory iff the documented rule says so, and only "
        "after the Harvester/Sampler file verifiably holds the new data.  A "
        "second phase runs reap(wait=True) on the real clock while another "
        "process grows the last batches.",
        "Runs as root, so permission faults are replaced by a missing "
        "directory and an injected OSError; in the enumerated phase "
        "wait=True only on complete crops.",
        "DESIGN.md section 4, C12",
    ),
    "C13": (
        "exploration",
        "property-based testing (Hypothesis): pure-numpy reference for "
        "'entirely null at these labels' + find/harvest/find history oracle",
        "Generated datasets (variables over subsets of the dimensions, "
        "internal dimensions, whole-cell / per-element / per-variable null "
        "masks, inf for isfinite) are decided against a numpy model of the "
        "definition; parse_into_cases is queried with absent labels; and "
        "harvesting exactly the reported cases must leave nothing missing.",
        "Float variables; the loop part needs variables spanning all "
        "parameter dimensions.",
        "DESIGN.md section 4, C13",
    ),
    "C14": (
        "exploration",
        "property-based testing (Hypothesis): round-trip oracle + directory "
        "listing oracle + cross-API consistency (load/merge/Harvester/delete)",
        "Generated datasets (all dtype kinds, NaN/inf, 0-d, attrs) are saved "
        "and loaded with both importable engines under eight name spellings; "
        "values, dtypes, coordinates and attributes are compared, the "
        "directory listing fixes the file name rule, and the same name is "
        "then used through save_merge_ds, a fresh Harvester and delete_ds.",
        "netcdf4/zarr engines cannot be imported here and are not exercised; "
        "xarray/h5netcdf are trusted to store what they are given.",
        "DESIGN.md section 4, C14",
    ),
    "C15": (
        "exploration",
        "model-based testing of generated run histories (Hypothesis): "
        "append-only table model, row-wise recomputation, disk == memory",
        "Generated histories of direct sampling runs, crop-based sampling "
        "runs and fresh Sampler sessions on one file (pickle and csv), with "
        "choice lists, overrides and a logging callable as generators; after "
        "every run the table must have grown by exactly n, earlier rows must "
        "be unchanged, every new row must be drawn from the allowed values "
        "and recompute to its own outputs, and the file must equal memory.  "
        "A second phase uses one output column holding tuples.",
        "n >= 1 (n = 0 is an open, listed finding); numpy RNG seeded from the "
        "case.",
        "DESIGN.md section 4, C15",
    ),
    "C16": (
        "exploration",
        "property-based testing (Hypothesis) of generated scripts: bash -n, "
        "compile, header parser, stub-execution of the embedded program per "
        "task index, and real execution with bash and stub scheduler "
        "variables",
        "Generated scheduler/mode/crop-state/batch_ids/option combinations: "
        "every script is syntax-checked by bash, its embedded program is "
        "compiled and run once per array index against stub grow/Crop "
        "objects, and the header's array range is parsed; a sample is really "
        "executed with bash (and the xyzpy-grow command line is run) and the "
        "crop inspected: exactly the intended result files, every setting "
        "evaluated once, reap equal to the direct run.",
        "No scheduler present; exit status of the scripts is not used.",
        "DESIGN.md section 4, C16",
    ),
    "C17": (
        "exploration",
        "property-based testing (Hypothesis) with artist readers: the "
        "returned matplotlib Figure is decoded and compared with a plain "
        "numpy reference",
        "Generated datasets (NaN/inf patterns, numeric and str z, 1-14 "
        "series, row/col grids, x as variable, several y variables, error "
        "bars, colour variables) and plot options for lineplot, scatter, "
        "histogram, heatmap and auto_lineplot; Line2D / PathCollection / "
        "Polygon / QuadMesh artists are read back: series count, order, "
        "labels, exact (x, y) data, error-bar segments, shared colour "
        "normalisation, histogram densities on common edges, mesh array and "
        "cell centres, panel titles, line colours against matplotlib's own "
        "colour maps, and the input dataset must be unchanged.",
        "Artists, not pixels; matplotlib backend only; default colour map "
        "checked relationally.",
        "DESIGN.md section 4, C17",
    ),
    "C18": (
        "exploration",
        "property-based testing (Hypothesis) with artist readers and a "
        "relational style oracle against a numpy reference",
        "Generated datasets and assignments of dimensions to the eight "
        "mappable properties (double mappings, fused dimensions, explicit "
        "orders, dropped all-NaN labels), iteration or aggregation of the "
        "rest, join_across_missing, palettes, x as variable; histogram and "
        "heat-map modes.  From the returned axes every slice with data must "
        "be exactly one line in the panel named by its row/col labels with "
        "exactly its data, styles must be a consistent and (while defaults "
        "last) injective function of the mapped coordinates, aggregated and "
        "histogram lines must equal numpy's, heat-map meshes (also the "
        "default RGBA colouring, decoded through HSV) must show z on (y, x), "
        "and the input must be unchanged.",
        "Lines matched by data; histogram mode only with whole-label NaNs; "
        "artists, not pixels.",
        "DESIGN.md section 4, C18",
    ),
    "C19": (
        "exploration",
        "property-based testing (Hypothesis) against an exact Fraction "
        "reference; history oracle for the stopping rule",
        "Generated sequences (offsets to 1e9, spreads to 1e-3, 1..500 values, "
        "chunkings, permutations, 2-4 correlated series) are compared with "
        "exact rational arithmetic under a stated data-scale tolerance; the "
        "repeat loop is driven by scripted generators (also ones that run "
        "out, and with generated arguments for the sampled function) and its "
        "call log is checked against the stopping rule.  High confidence over "
        "the generated domain, not a proof.",
        "Tolerance 8*n*2^-53*max|x| defines 'floating-point accuracy relative "
        "to the data scale'; count >= 1.",
        "DESIGN.md section 4, C19",
    ),
    "C20": (
        "exploration",
        "property-based testing (Hypothesis) + exhaustive boundary lattice + "
        "atheris coverage-guided fuzzing against an independent reader oracle",
        "Generated search over (x, err): Hypothesis floats, a product lattice "
        "around every two-significant-figure rounding boundary and every "
        "decade, and an atheris campaign, each decided by an independent "
        "regex/Fraction reader of the produced string.  Gives high confidence "
        "over the stated domain, not a proof.",
        "Trusts Python's float formatting and the reader in xv/oracle_c20.py; "
        "err >= 1e-300 (sub-normal errors have fewer than two significant digits), up to the largest finite double; ties accepted either way.",
        "DESIGN.md section 4, C20",
    ),
}

ALL = [f"C{i:02d}" for i in range(1, 21)]


def main():
    checks = []
    for pid in ALL:
        if pid not in CHECKS:
            continue
        cat, tech, text, note, ref = CHECKS[pid]
        checks.append({
            "property_id": pid,
            "quick_cmd": f"./check {pid} --tier quick",
            "thorough_cmd": f"./check {pid} --tier thorough",
            "evidence_file": f"/verif/evidence/{pid}.json",
            "replay_cmd_template": f"./check {pid} --replay {{path}}",
            "engine": "xv",
            "level_claimed": {"category": cat, "text": text,
                              "design_ref": ref},
            "level_note": note,
            "technique": tech,
        })
    manifest = {
        "version": 1,
        "setup_cmd": (
            "/venv/bin/python -c 'import hypothesis' 2>/dev/null || "
            "/venv/bin/pip install --no-index --find-links "
            "/opt/veriftools/wheels hypothesis; "
            "/venv/bin/python -m compileall -q xv"
        ),
        "hooks": {
            "guard": "XYZPY_VERIF",
            "enable": "no source hooks are needed: the harness intercepts "
                      "file operations from outside (xv/fsx.py); the guard "
                      "name is reserved and unused",
            "baseline_off_cmd": (
                "cd /repo && /venv/bin/python -m pytest -ra -q "
                "-p no:cacheprovider --timeout=900 "
                "--continue-on-collection-errors"
            ),
            "source_commits": [],
            "add_only": True,
        },
        "engines": [{
            "name": "xv",
            "path": "/verif/xv",
            "serves_properties": sorted(CHECKS),
            "kind_free_text": "Hypothesis-driven property-based testing, "
                              "model-based histories, enumerated fault "
                              "injection and schedule exploration, atheris "
                              "fuzzing; explicit oracles per property",
        }],
        "checks": checks,
        "notes": "Run ./check <ID> [--tier quick|thorough] [--replay file]; "
                 "VERIF_SEED selects the seed; evidence in evidence/<ID>.json;"
                 " known_findings.txt lists fixed/open findings.",
        "not_applicable": [
            {"property_id": pid,
             "reason": "no check registered yet (work in progress; see "
                       "DESIGN.md section 9 for the order)"}
            for pid in ALL if pid not in CHECKS
        ],
    }
    with open(os.path.join(HERE, "MANIFEST.json"), "w") as f:
        json.dump(manifest, f, indent=1)
        f.write("\n")


if __name__ == "__main__":
    main()
