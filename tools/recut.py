#!/venv/bin/python
"""Re-cut kept patches (seeded/*/patch.diff, mutants/*.patch) after a `fix:`
commit in /repo touched lines they also touch.

    tools/recut.py <old-rev> [<new-rev>]      (new-rev defaults to HEAD)

For every patch that no longer applies to <new-rev> but applies to <old-rev>
the change is carried over by a three-way merge per file (base = old tree,
ours = old tree + patch, theirs = new tree).  Clean merges are written back
(and `rebased` is noted in meta.json); conflicting ones are listed and their
merge result is left under /tmp/xv-recut/<name>/ for a manual resolution.
Everything happens on scratch copies outside /repo and /verif."""
import os
import sys
import glob
import json
import shutil
import subprocess

VERIF = os.path.dirname(os.path.dirname(os.path.abspath(__file__)))
REPO = "/repo"
WORK = "/tmp/xv-recut"


def sh(cmd, cwd=None, check=True):
    return subprocess.run(cmd, cwd=cwd, capture_output=True, text=True,
                          check=check)


def export(rev, dst):
    os.makedirs(dst)
    p = subprocess.Popen(["git", "-C", REPO, "archive", rev, "xyzpy"],
                         stdout=subprocess.PIPE)
    subprocess.run(["tar", "-x", "-C", dst], stdin=p.stdout, check=True)
    p.wait()


def applies(tree, patch):
    return subprocess.run(["patch", "-p1", "-s", "--dry-run", "-d", tree,
                           "-i", patch], capture_output=True).returncode == 0


def main():
    old = sys.argv[1]
    new = sys.argv[2] if len(sys.argv) > 2 else "HEAD"
    shutil.rmtree(WORK, ignore_errors=True)
    export(old, os.path.join(WORK, "old"))
    export(new, os.path.join(WORK, "new"))
    patches = sorted(glob.glob(os.path.join(VERIF, "seeded", "*",
                                            "patch.diff"))) + \
        sorted(glob.glob(os.path.join(VERIF, "mutants", "*.patch")))
    todo = [p for p in patches
            if not applies(os.path.join(WORK, "new"), p)]
    rc = 0
    for p in todo:
        name = (os.path.basename(os.path.dirname(p)) if p.endswith(
            "patch.diff") else os.path.basename(p)[:-6])
        if not applies(os.path.join(WORK, "old"), p):
            print("NEITHER", name)
            rc = 1
            continue
        d = os.path.join(WORK, name)
        shutil.copytree(os.path.join(WORK, "old"), os.path.join(d, "ours"))
        sh(["patch", "-p1", "-s", "-d", os.path.join(d, "ours"), "-i", p])
        shutil.copytree(os.path.join(WORK, "new"), os.path.join(d, "merged"))
        files = [l[6:].strip() for l in open(p) if l.startswith("+++ b/")]
        conflict = False
        for f in files:
            ours = os.path.join(d, "ours", f)
            base = os.path.join(WORK, "old", f)
            theirs = os.path.join(WORK, "new", f)
            out = os.path.join(d, "merged", f)
            shutil.copy(ours, out)
            r = subprocess.run(["git", "merge-file", "-q", out, base, theirs])
            if r.returncode != 0:
                conflict = True
        if conflict:
            print("CONFLICT", name, "->", os.path.join(d, "merged"))
            rc = 1
            continue
        write_back(p, name, d, new)
    return rc


def write_back(p, name, d, new):
    g = os.path.join(d, "git")
    shutil.copytree(os.path.join(WORK, "new"), g)
    sh(["git", "init", "-q", "."], cwd=g)
    sh(["git", "add", "-A"], cwd=g)
    sh(["git", "-c", "user.email=a@b", "-c", "user.name=x", "commit", "-qm",
        "base"], cwd=g)
    shutil.copytree(os.path.join(d, "merged"), g, dirs_exist_ok=True)
    diff = sh(["git", "diff"], cwd=g).stdout
    with open(p, "w") as f:
        f.write(diff)
    meta = os.path.join(os.path.dirname(p), "meta.json")
    if p.endswith("patch.diff") and os.path.exists(meta):
        m = json.load(open(meta))
        m["rebased"] = (f"patch.diff re-cut by three-way merge after a fix "
                        f"commit in the repository ({new}) touched "
                        f"neighbouring lines; the change itself is unchanged")
        with open(meta, "w") as f:
            json.dump(m, f, indent=1, sort_keys=True)
    print("RECUT", name)


if __name__ == "__main__":
    sys.exit(main())
