"""Independent reader for 'value(error)e+XX' strings (pure stdlib so that it
can be imported under the tooling interpreter by the atheris target too)."""
import re
import math
from fractions import Fraction

_RX = re.compile(r"^(-?)(\d+)(?:\.(\d*))?\((\d+)\)(?:e([+-]\d+))?$")
EPS = Fraction(1, 10**9)
U = Fraction(1, 2**53)


def read(s):
    """-> (value, error, unit) as exact Fractions, or None if unparsable."""
    m = _RX.match(s)
    if not m:
        return None
    sign, ipart, fpart, digits, exp = m.groups()
    fpart = fpart or ""
    exp = int(exp) if exp else 0
    nd = len(fpart)
    scale = Fraction(10) ** (exp - nd)
    value = Fraction(int(ipart + fpart)) * scale
    if sign:
        value = -value
    error = Fraction(int(digits)) * scale
    return value, error, scale, digits


def decade(fr):
    """floor(log10(fr)) for a positive Fraction, exactly."""
    e = int(math.floor(math.log10(float(fr)))) if fr > 0 else 0
    while Fraction(10) ** e > fr:
        e -= 1
    while Fraction(10) ** (e + 1) <= fr:
        e += 1
    return e


def check(x, err, s):
    """Return None if ``s`` denotes (x, err) by the usual convention, else a
    (key, detail) pair."""
    if not isinstance(s, str):
        return "not-a-string", repr(s)
    r = read(s)
    if r is None:
        return "unparsable", s
    value, error, unit, digits = r
    if len(digits) != 2 or digits[0] == "0":
        return "bracket-not-two-significant-digits", s
    X, E = Fraction(x), Fraction(err)
    # error shown == err rounded to two significant figures (of err itself)
    half_unit_err = Fraction(10) ** (decade(E) - 1) / 2
    tol_e = half_unit_err * (1 + EPS) + 8 * U * E
    if abs(error - E) > tol_e:
        return ("error-not-err-to-2sf",
                f"{s!r} reads as error {float(error)!r} for err={err!r}")
    # value shown == x rounded to the last shown digit
    tol_x = unit / 2 * (1 + EPS) + 8 * U * abs(X)
    if abs(value - X) > tol_x:
        return ("value-not-x-to-last-digit",
                f"{s!r} reads as value {float(value)!r} for x={x!r} "
                f"(unit {float(unit)!r})")
    return None


def nontrivial(x, err):
    """Rounding-boundary cases (see DESIGN C20/NT)."""
    m = f"{err:.1e}".split("e")[0]
    m3 = f"{err:.3e}".split("e")[0]
    if m == "1.0" and m3.startswith("9."):
        return True          # error rounds up across a power of ten
    if x != 0:
        ax = abs(x)
        p = 10.0 ** round(math.log10(ax))
        if abs(ax - p) <= 1e-3 * p:
            return True      # |x| next to a power of ten
        r = err / ax
        if abs(r - 0.1) <= 0.005 or abs(r - 1.0) <= 0.05:
            return True      # ratio next to the hide-exponent rule boundary
    return False


def load_function(repo):
    """Load format_number_with_error from the working tree without importing
    the package (only stdlib needed)."""
    import ast
    import os
    src = open(os.path.join(repo, "xyzpy", "utils.py")).read()
    tree = ast.parse(src)
    for node in tree.body:
        if isinstance(node, ast.FunctionDef) and \
                node.name == "format_number_with_error":
            mod = ast.Module(body=[node], type_ignores=[])
            ns = {}
            exec(compile(mod, "xyzpy/utils.py", "exec"), ns)
            return ns["format_number_with_error"]
    raise RuntimeError("format_number_with_error not found")
