"""C14 - saving and loading a dataset gives the same dataset back; the
extension rule is applied consistently."""
import os
import random

import numpy as np
from hypothesis import strategies as st

from .. import core, models
from ..core import Phase, under_test, require

ID = "C14"
LEVEL = "exploration"
RULE = (
    "cases: datasets with 0-4 dimensions (sizes 1-3; int64/int32/float64/"
    "float32/str coordinates or none; the merge step adds labels that need "
    "a wider dtype than the file holds), 1-3 variables of dtype int/float/complex/bool/str "
    "over subsets of the dimensions (incl. 0-d), NaN/inf patterns, attributes "
    "of int/float/str/None/True/False/number-list type; engine h5netcdf or "
    "joblib; names bare / .h5 / .dmp / .nc / in a directory with dots; chunks "
    "None/int/dict.  Oracle: load_ds(save_ds(ds)) has the same dims, "
    "coordinates, variables, dtype kinds, values (NaN-aware, complex exact) "
    "and attributes (modulo the documented None/True/False -> str rewrite for "
    "netCDF engines); the directory gained exactly one entry, named name+ext "
    "iff the name had no known extension; the same name then works for "
    "load_ds, save_merge_ds (the merged file holds both), a fresh "
    "Harvester(data_name=name).full_ds and Harvester.delete_ds (removes "
    "exactly that entry); lazy load .compute() equals the eager load.  "
    "Non-trivial = complex or NaN-bearing data, or a bare name."
)
ASSUMPTIONS = [
    "netCDF4 and zarr are not importable in this sandbox: only the h5netcdf "
    "and joblib engines are exercised",
    "names are generated so that 'contains a known extension' and 'ends with "
    "a known extension' agree",
    "attribute lists have >= 2 numbers (netCDF stores 1-element lists as "
    "scalars)",
]

EXT = {"h5netcdf": ".h5", "joblib": ".dmp"}
KNOWN = (".h5", ".nc", ".dmp", ".zarr")


def xyz():
    return core.import_target()


def build(case):
    import xarray as xr
    rng = random.Random(case["seed"])
    sizes = {d: n for d, n, _ in case["dims"]}
    coords = {}
    for d, n, kind in case["dims"]:
        if kind == "int":
            coords[d] = [3 * i - 2 for i in range(n)]
        elif kind == "int32":
            coords[d] = np.array([3 * i - 2 for i in range(n)],
                                 dtype=np.int32)
        elif kind == "float32":
            coords[d] = np.array([0.25 + 1.5 * i for i in range(n)],
                                 dtype=np.float32)
        elif kind == "float":
            coords[d] = [0.25 + 1.5 * i for i in range(n)]
        elif kind == "str":
            coords[d] = ["k%d" % i for i in range(n)]
    data = {}
    for v in case["vars"]:
        shape = tuple(sizes[d] for d in v["dims"])
        n = int(np.prod(shape)) if shape else 1
        t = v["dtype"]
        if t == "int":
            arr = np.array([rng.randint(-10**9, 10**9) for _ in range(n)],
                           dtype=np.int64)
        elif t == "bool":
            arr = np.array([rng.random() < .5 for _ in range(n)], dtype=bool)
        elif t == "str":
            arr = np.array([rng.choice(["alpha", "b", "gamma delta", "z9"])
                            for _ in range(n)])
        else:
            re = [rng.uniform(-1e3, 1e3) for _ in range(n)]
            arr = np.array(re, dtype=float)
            if t == "complex":
                arr = arr + 1j * np.array([rng.uniform(-5, 5)
                                           for _ in range(n)])
            bad = np.array([rng.random() < v.get("p_nan", 0) for _ in
                            range(n)])
            arr = np.where(bad, np.nan, arr)
            if v.get("p_inf"):
                inf = np.array([rng.random() < v["p_inf"] for _ in range(n)])
                arr = np.where(inf, np.inf, arr)
        data[v["name"]] = (tuple(v["dims"]), arr.reshape(shape))
    attrs = {k: ({"np.True_": np.True_, "np.False_": np.False_}.get(v, v)
                 if isinstance(v, str) else v)
             for k, v in case["attrs"].items()}
    return xr.Dataset(data, coords=coords, attrs=attrs)


def kind_of(dt):
    k = np.dtype(dt).kind
    return {"i": "int", "u": "int", "f": "float", "c": "complex",
            "b": "bool"}.get(k, "str")


def same_values(a, b):
    a, b = np.asarray(a), np.asarray(b)
    if a.shape != b.shape:
        return False
    if kind_of(a.dtype) == "str" or kind_of(b.dtype) == "str":
        return [str(x) for x in a.ravel()] == [str(x) for x in b.ravel()]
    return bool(np.array_equal(a, b, equal_nan=True))


def compare(orig, got, netcdf, tag):
    require(dict(got.sizes) == dict(orig.sizes), "dims",
            f"{tag}: sizes {dict(got.sizes)} vs {dict(orig.sizes)}")
    require(set(got.coords) == set(orig.coords), "coords-names",
            f"{tag}: coords {set(got.coords)} vs {set(orig.coords)}")
    require(set(got.data_vars) == set(orig.data_vars), "variables",
            f"{tag}: {set(got.data_vars)} vs {set(orig.data_vars)}")
    for c in orig.coords:
        require(same_values(orig[c].values, got[c].values), "coord-values",
                f"{tag}: coordinate {c}: {got[c].values!r} vs "
                f"{orig[c].values!r}")
    for v in orig.data_vars:
        require(got[v].dims == orig[v].dims, "variable-dims",
                f"{tag}: {v}: {got[v].dims} vs {orig[v].dims}")
        require(kind_of(got[v].dtype) == kind_of(orig[v].dtype),
                "dtype-kind", f"{tag}: {v}: {got[v].dtype} vs "
                              f"{orig[v].dtype}")
        require(same_values(orig[v].values, got[v].values), "values",
                lambda: f"{tag}: {v}: {np.asarray(got[v].values)!r:.300} vs "
                        f"{orig[v].values!r:.300}")
    want_attrs = {}
    for k, val in orig.attrs.items():
        if netcdf and (val is None or val is True or val is False or
                       isinstance(val, np.bool_)):
            # (numpy's booleans are booleans too)
            val = str(bool(val)) if val is not None else "None"
        want_attrs[k] = val
    require(set(got.attrs) == set(want_attrs), "attrs-names",
            f"{tag}: attrs {dict(got.attrs)!r} vs {want_attrs!r}")
    for k, val in want_attrs.items():
        g = got.attrs[k]
        if isinstance(val, (list, np.ndarray)) or \
                isinstance(g, (list, np.ndarray)):
            ok = models.deep_eq(np.asarray(g), np.asarray(val))
        else:
            ok = (models.plain(g) == models.plain(val)
                  and isinstance(g, str) == isinstance(val, str))
        require(ok, "attr-value", f"{tag}: attr {k}: {g!r} vs {val!r}")


def listing(root):
    out = set()
    for dp, dn, fn in os.walk(root):
        for f in fn + dn:
            out.add(os.path.relpath(os.path.join(dp, f), root))
    return out


def run_case(case):
    x = xyz()
    import xarray as xr
    engine = case["engine"]
    netcdf = engine != "joblib"
    ds = build(case)
    orig = ds.copy(deep=True)
    with core.scratch("xv-c14-") as root:
        name = case["name"]
        sub = os.path.dirname(name)
        if sub:
            os.makedirs(os.path.join(root, sub))
        path = os.path.join(root, name)
        has_ext = any(path.endswith(e) for e in KNOWN)
        expect_rel = name if has_ext else name + EXT[engine]
        before = listing(root)
        via = case.get("first_via") or "save_ds"
        with under_test(via):
            if via == "save_ds":
                x.save_ds(ds, path, engine=engine)
            else:
                # saving under a name that does not exist yet through the
                # merging front end is a plain save
                x.save_merge_ds(ds, path, engine=engine,
                                overwrite={"merge_none": None,
                                           "merge_true": True,
                                           "merge_false": False}[via])
        new = listing(root) - before
        require(new == {expect_rel}, "file-name",
                f"saving as {name!r} with {engine} created {sorted(new)}, "
                f"expected [{expect_rel!r}]")
        with under_test("load_ds(create_new=True) on a missing file"):
            blank = x.load_ds(os.path.join(root, "nothing-here-" + name.
                                           replace("/", "_")),
                              engine=engine, create_new=True)
        require(len(blank.data_vars) == 0 and len(blank.dims) == 0,
                "create-new-not-blank", f"{blank}")
        with under_test("load_ds"):
            got = x.load_ds(path, engine=engine)
        compare(orig, got, netcdf, "load_ds")
        with under_test("load_ds(create_new=True) on the existing file"):
            got2 = x.load_ds(path, engine=engine, create_new=True)
        compare(orig, got2, netcdf, "load_ds(create_new=True)")
        early = early_ref = None
        if not netcdf and case.get("chunks") is not None:
            # (the pickling engine: asked not to load into memory; the file
            # is rewritten further down)
            with under_test("load_ds(load_to_mem=False)"):
                early = x.load_ds(path, engine=engine, load_to_mem=False)
            early_ref = orig
        # lazily
        if netcdf and case.get("chunks") is not None:
            ch = case["chunks"]
            if ch == "dict":
                ch = {d: 1 for d in list(orig.sizes)[:1]}
            with under_test("load_ds(chunks)"):
                lazy = x.load_ds(path, engine=engine, chunks=ch)
                comp = lazy.compute()
                lazy.close()
            compare(orig, comp, netcdf, "load_ds(chunks).compute()")

        # merging into the same name: the file must hold both
        merged_ok = False
        d0 = next((d for d, n, k in case["dims"] if k != "none"), None)
        if d0 is not None and case.get("merge"):
            extra = orig.copy(deep=True)
            c = extra[d0].values
            # new labels that do NOT fit what the file stored so far: longer
            # strings, integers beyond 32 bits, floats needing 64 bits
            if c.dtype.kind in "UO":
                shift = np.array(["merged-%d" % i for i in range(len(c))])
            elif c.dtype.kind in "iu":
                shift = c.astype(np.int64) + 2 ** 40 + 7
            else:
                shift = c.astype(np.float64) + 1000.1
            extra = extra.assign_coords({d0: shift})
            extra.attrs = {}
            with under_test("save_merge_ds"):
                x.save_merge_ds(extra, path, engine=engine)
            after = listing(root) - before
            require(after == {expect_rel}, "merge-file-name",
                    f"save_merge_ds({name!r}) left {sorted(after)}")
            with under_test("load_ds after merge"):
                both = x.load_ds(path, engine=engine)
            # the labels themselves, exactly (label look-up casts the label
            # to the index' dtype, which would hide a narrowed coordinate)
            def exact(vals):
                return sorted(v_ if isinstance(v_, str) else
                              float(v_) if isinstance(v_, float) else v_
                              for v_ in np.asarray(vals).tolist())
            want_labels = exact(list(orig[d0].values.tolist()) +
                                list(extra[d0].values.tolist()))
            require(exact(both[d0].values) == want_labels,
                    "merge-changed-labels",
                    f"after save_merge_ds the coordinate {d0} reads "
                    f"{exact(both[d0].values)}, saved were {want_labels} "
                    f"({name!r}, {engine})")
            for lab_ds, what in ((orig, "first"), (extra, "second")):
                for v in orig.data_vars:
                    if d0 not in orig[v].dims:
                        continue
                    try:
                        sel = both[v].sel({d0: lab_ds[d0].values})
                    except KeyError:
                        core.violated(
                            "merge-lost-labels",
                            f"after save_merge_ds the {what} dataset's "
                            f"labels {lab_ds[d0].values.tolist()} of {d0} "
                            f"are not in the file, which has "
                            f"{both[d0].values.tolist()} ({name!r}, "
                            f"{engine})")
                    require(same_values(lab_ds[v].values, sel.transpose(
                        *lab_ds[v].dims).values), "merge-lost-data",
                        f"after save_merge_ds the {what} dataset's {v} is "
                        f"not in the file ({name!r}, {engine})")
            merged_ok = True
            ref = both
        else:
            ref = got

        if early is not None:
            # a dataset loaded before is a value of its own: saving something
            # else under the same name later does not reach it
            with under_test("save_ds over the same name"):
                x.save_ds(ref.copy(deep=True) * 0 if all(
                    ref[v].dtype.kind in "fiuc" for v in ref.data_vars)
                    else ref.isel({d: slice(0, 1) for d in ref.dims}),
                    path, engine=engine)
                x.save_ds(ref.copy(deep=True), path, engine=engine)
            compare(early_ref, early, netcdf,
                    "a dataset loaded (load_to_mem=False) before later saves")

        # a new-session harvester on the same name sees the same data
        with under_test("Harvester(data_name).full_ds"):
            r = x.Runner(lambda a: a, "out")
            h = x.Harvester(r, data_name=path, engine=engine)
            full = h.full_ds
        require(full is not None, "harvester-does-not-see-file",
                f"Harvester(data_name={name!r}, engine={engine}).full_ds is "
                f"None although the dataset was saved under that name")
        compare(ref.copy(), full, False, "Harvester.full_ds")
        with under_test("Harvester.delete_ds"):
            h.delete_ds()
        left = listing(root) - before
        require(left == set(), "delete-wrong-file",
                f"delete_ds left {sorted(left)}")

    nt = any(v["dtype"] == "complex" or v.get("p_nan") for v in case["vars"]) \
        or not has_ext
    return {"nontrivial": nt,
            "classes": [f"engine={engine}", "bare" if not has_ext else "ext",
                        f"ndims={len(case['dims'])}",
                        "merged" if merged_ok else "no-merge",
                        f"chunks={case.get('chunks')}"]
            + sorted({f"dtype={v['dtype']}" for v in case["vars"]})}


# ----------------------------------------------------------------- strategy

ATTR_VALUES = [3, -1, 2.5, "text", "", None, True, False, [1, 2, 3],
               [0.5, 1.5], 0, "np.True_", "np.False_"]


@st.composite
def strategy(draw):
    nd = draw(st.integers(0, 4))
    dnames = draw(st.lists(st.sampled_from(["a", "b", "c", "d", "x"]),
                           min_size=nd, max_size=nd, unique=True))
    dims = [[d, draw(st.integers(1, 3)),
             draw(st.sampled_from(["int", "float", "str", "int32", "float32",
                                   "none"]))]
            for d in dnames]
    nv = draw(st.integers(1, 3))
    vars_ = []
    for j in range(nv):
        vd = [d for d in dnames if draw(st.booleans())]
        if draw(st.booleans()):
            vd = list(reversed(vd))
        t = draw(st.sampled_from(["float", "complex", "int", "bool", "str",
                                  "float"]))
        v = {"name": f"v{j}", "dims": vd, "dtype": t}
        if t in ("float", "complex"):
            v["p_nan"] = draw(st.sampled_from([0.0, 0.3, 1.0]))
            v["p_inf"] = draw(st.sampled_from([0.0, 0.0, 0.3]))
        vars_.append(v)
    # every dimension must be used by a variable or have a coordinate
    for d in dims:
        if d[2] == "none" and not any(d[0] in v["dims"] for v in vars_):
            d[2] = "int"
    na = draw(st.integers(0, 3))
    akeys = draw(st.lists(st.sampled_from(["note", "n", "flag", "opt", "ls"]),
                          min_size=na, max_size=na, unique=True))
    attrs = {k: draw(st.sampled_from(ATTR_VALUES)) for k in akeys}
    engine = draw(st.sampled_from(["h5netcdf", "joblib", "h5netcdf"]))
    name = draw(st.sampled_from(
        ["data", "data.h5", "data.dmp", "data.nc", "sub.dir/data",
         "v1.2/res.h5", "my_results", "run-3.final/out",
         # a dot in the file name itself that is no known extension
         "scan_g0.25", "run_T0.5", "v2.final/data_x1.5"]))
    return {"dims": dims, "vars": vars_, "attrs": attrs, "engine": engine,
            "name": name, "seed": draw(st.integers(0, 2**20)),
            "chunks": draw(st.sampled_from([None, 1, 2, "dict"])),
            "merge": draw(st.booleans()),
            "first_via": draw(st.sampled_from(
                [None, None, None, "merge_none", "merge_true",
                 "merge_false"]))}


PHASES = [
    Phase("roundtrip", run_case, strategy=strategy,
          examples={"quick": 1200, "thorough": 40000}),
]
