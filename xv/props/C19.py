"""C19 - running statistics equal the statistics of the whole sample; the
repeat-until-converged loop honours its stopping rule."""
import math
import random
from fractions import Fraction

from hypothesis import strategies as st

from .. import core
from ..core import Phase, PropertyViolation, under_test, require

ID = "C19"
LEVEL = "exploration"
RULE = (
    "stats cases: 1..500 finite floats = offset (0, +-1 .. +-1e9) + spread "
    "(1e-3..1e3) * unit noise (Hypothesis floats, or a case-seeded stream for "
    "long sequences), also constant and single-element sequences, fed by "
    "update(), by update_from_it() in generated chunkings and in a generated "
    "permutation; 2-4 correlated series for the covariance classes (optionally rounded "
    "to integers / quarters, and with single samples at which two series "
    "coincide exactly). Oracle: "
    "exact Fraction arithmetic on the float inputs (count, mean, population "
    "variance, std, err=std/sqrt(n), covariance, sample covariance, matrix "
    "symmetry) with tolerance 8*n*2^-53*max|x| on mean/std/err and the "
    "induced tolerance on (co)variances.  stopping cases: "
    "estimate_from_repeats with generated rtol/tol_scale/min_samples/"
    "max_samples over scripted generators; oracle: calls == count == "
    "len(samples) <= max_samples, statistics are those of exactly the drawn "
    "samples, and an early stop implies count >= min_samples and the "
    "convergence inequality on the returned statistics.  Non-trivial = "
    "offset/spread >= 1e6 with n >= 10, or >= 2 chunks / a permutation; "
    "stopping cases that end by convergence before max_samples."
)
ASSUMPTIONS = [
    "tolerance 'relative to the data scale' is 8*n*u*max|x| (u = 2^-53); a "
    "sum-of-squares formula misses it by orders of magnitude on the "
    "ill-conditioned cases",
    "count >= 1 (the empty accumulator reports inf by design)",
]

U = 2.0 ** -53

_mods = {}


def utils():
    if "u" not in _mods:
        core.import_target()
        import xyzpy.utils as u
        _mods["u"] = u
    return _mods["u"]


# ------------------------------------------------------------------ helpers

def build_series(spec):
    """spec -> list of floats (pure function of the case)."""
    off, spread = float(spec["offset"]), float(spec["spread"])
    if "noise" in spec:
        noise = spec["noise"]
    else:
        rng = random.Random(spec["seed"])
        kind = spec.get("dist", "uniform")
        n = spec["n"]
        if kind == "uniform":
            noise = [rng.uniform(-1, 1) for _ in range(n)]
        elif kind == "gauss":
            noise = [max(-1.0, min(1.0, rng.gauss(0, .3))) for _ in range(n)]
        elif kind == "constant":
            noise = [0.5] * n
        else:   # two-level
            noise = [rng.choice((-1.0, 1.0)) for _ in range(n)]
    return [off + spread * z for z in noise]


def exact_stats(xs):
    n = len(xs)
    fx = [Fraction(x) for x in xs]
    mean = sum(fx) / n
    var = sum((f - mean) ** 2 for f in fx) / n
    return n, mean, var


def exact_cov(xs, ys):
    n = len(xs)
    fx = [Fraction(x) for x in xs]
    fy = [Fraction(y) for y in ys]
    mx, my = sum(fx) / n, sum(fy) / n
    c = sum((a - mx) * (b - my) for a, b in zip(fx, fy))
    return c / n, (c / (n - 1) if n > 1 else None)


def is_real(v):
    try:
        return isinstance(v, (int, float)) or (
            hasattr(v, "dtype") and v.dtype.kind == "f")
    except Exception:
        return False


def check_stats(rs, xs, tag):
    n, mean, var = exact_stats(xs)
    S = max(abs(x) for x in xs)
    tol = 8 * n * U * S + 5e-324
    std = math.sqrt(var) if var > 0 else 0.0
    require(rs.count == n, f"count", f"{tag}: count {rs.count} != {n}")
    for name in ("mean", "var", "std", "err"):
        v = getattr(rs, name)
        require(is_real(v) and math.isfinite(v), f"non-finite-{name}",
                f"{tag}: {name}={v!r}")
    require(abs(rs.mean - float(mean)) <= tol, "mean",
            lambda: f"{tag}: mean {rs.mean!r} vs exact {float(mean)!r} "
                    f"(tol {tol:.3g}, n={n}, S={S:.3g})")
    require(abs(rs.std - std) <= tol, "std",
            lambda: f"{tag}: std {rs.std!r} vs exact {std!r} (tol {tol:.3g})")
    vtol = tol * (2 * std + tol)
    require(abs(rs.var - float(var)) <= vtol, "var",
            lambda: f"{tag}: var {rs.var!r} vs exact {float(var)!r} "
                    f"(tol {vtol:.3g})")
    etol = tol / math.sqrt(n)
    require(abs(rs.err - std / math.sqrt(n)) <= etol + 4 * U * std, "err",
            lambda: f"{tag}: err {rs.err!r} vs exact {std / math.sqrt(n)!r}")


# ------------------------------------------------------------ stats run_case

def run_stats(case):
    u = utils()
    xs = build_series(case["series"])
    n = len(xs)
    # (1) one at a time
    with under_test("RunningStatistics.update"):
        rs = u.RunningStatistics()
        for x in xs:
            rs.update(x)
    check_stats(rs, xs, "update")
    # (2) chunked through update_from_it
    cuts = sorted(set(c % (n + 1) for c in case.get("cuts", [])))
    bounds = [0] + cuts + [n]
    chunks = [xs[a:b] for a, b in zip(bounds, bounds[1:])]
    with under_test("RunningStatistics.update_from_it"):
        rs2 = u.RunningStatistics()
        import numpy as _np
        for i, ch in enumerate(chunks):
            if i % 3 == 1:
                rs2.update_from_it(iter(ch))
            elif i % 3 == 2:
                rs2.update_from_it(_np.array(ch))
            else:
                rs2.update_from_it(list(ch))
    check_stats(rs2, xs, "chunked")
    # (3) a permutation
    perm = list(xs)
    random.Random(case.get("perm_seed", 0)).shuffle(perm)
    if case.get("sorted"):
        perm = sorted(xs, reverse=case["sorted"] == "desc")
    with under_test("RunningStatistics.update"):
        rs3 = u.RunningStatistics()
        rs3.update_from_it(perm)
    check_stats(rs3, xs, "permuted")
    ser = case["series"]
    ratio = abs(ser["offset"]) / ser["spread"]
    return {"nontrivial": (ratio >= 1e6 and n >= 10) or len(chunks) >= 2,
            "classes": [f"offset/spread>=1e6:{ratio >= 1e6}",
                        f"n>={100 if n >= 100 else 10 if n >= 10 else 1}",
                        "constant" if len(set(xs)) == 1 else "varied"]}


# -------------------------------------------------------------- cov run_case

def run_cov(case):
    u = utils()
    base = build_series(case["series"])
    n = len(base)
    k = case["k"]
    # correlated series: linear mixes of the base noise and an own stream
    series = []
    for j in range(k):
        spec = case["others"][j]
        own = build_series({"offset": spec["offset"], "spread": spec["spread"],
                            "seed": spec["seed"], "n": n, "dist": "uniform"})
        a = spec["mix"]
        series.append([a * b + o for b, o in zip(base, own)])
    if case.get("discrete"):
        # rounded / integer-valued data: equal values in different series
        # at the same sample are common
        series = [[float(round(v_ * case["discrete"])) / case["discrete"]
                   for v_ in s] for s in series]
    for pos, j in case.get("ties", []):
        # single samples at which two series coincide exactly
        series[1 + j % (k - 1)][pos % n] = series[0][pos % n]
    S = [max(abs(x) for x in s) for s in series]
    sig = []
    for s in series:
        _, _, var = exact_stats(s)
        sig.append(math.sqrt(var) if var > 0 else 0.0)

    def tol(i, j):
        t = 16 * n * U
        return t * (S[i] * sig[j] + S[j] * sig[i] + t * S[i] * S[j]) + 5e-324

    # pairwise RunningCovariance
    with under_test("RunningCovariance"):
        rc = u.RunningCovariance()
        if case.get("feed") == "it":
            rc.update_from_it(series[0], series[1])
        elif case.get("feed") == "it_gen":
            # one-shot iterables (generators, map objects ...)
            rc.update_from_it((v for v in series[0]), iter(series[1]))
        elif case.get("feed") == "it_array":
            import numpy as _np
            h_ = max(1, n // 2)
            rc.update_from_it(_np.array(series[0][:h_]),
                              _np.array(series[1][:h_]))
            rc.update_from_it(_np.array(series[0][h_:]),
                              _np.array(series[1][h_:]))
        else:
            for x, y in zip(series[0], series[1]):
                rc.update(x, y)
        cov, scov = rc.covar, (rc.sample_covar if n > 1 else None)
    ecov, escov = exact_cov(series[0], series[1])
    require(rc.count == n, "cov-count", f"{rc.count} != {n}")
    require(abs(cov - float(ecov)) <= tol(0, 1), "covar",
            lambda: f"covar {cov!r} vs exact {float(ecov)!r} "
                    f"tol {tol(0, 1):.3g}")
    if n > 1:
        require(abs(scov - float(escov)) <= tol(0, 1) * n / (n - 1),
                "sample_covar",
                lambda: f"sample_covar {scov!r} vs exact {float(escov)!r}")
    # matrix
    with under_test("RunningCovarianceMatrix"):
        rcm = u.RunningCovarianceMatrix(k)
        if case.get("empty_chunk") == "first":
            rcm.update_from_it(*[[] for _ in series])     # nothing passed
        if case.get("feed") == "it":
            h_ = len(series[0]) // 2
            rcm.update_from_it(*[s_[:h_] for s_ in series])
            if case.get("empty_chunk") == "middle":
                import numpy as _np
                rcm.update_from_it(*[_np.array(s_[h_:h_]) for s_ in series])
            rcm.update_from_it(*[s_[h_:] for s_ in series])
        elif case.get("feed") == "it_gen":
            rcm.update_from_it(*[(v for v in s_) for s_ in series])
        elif case.get("feed") == "it_array":
            import numpy as _np
            rcm.update_from_it(*[_np.array(s_) for s_ in series])
        else:
            for row in zip(*series):
                rcm.update(*row)
        if case.get("scribble"):
            # the caller post-processes "their" matrices in place (turns them
            # into correlations, zeroes the diagonal ...): the accumulator is
            # not affected and the next read is the covariance again
            m0 = rcm.covar_matrix
            m0 *= 0.0
            m0 -= 7.0
            if n > 1:
                s0 = rcm.sample_covar_matrix
                s0[...] = -1.0
        M = rcm.covar_matrix
        SM = rcm.sample_covar_matrix if n > 1 else None
        cnt = rcm.count
    require(cnt == n, "matrix-count", f"{cnt} != {n}")
    require(M.shape == (k, k), "matrix-shape", str(M.shape))
    for i in range(k):
        for j in range(k):
            e, es = exact_cov(series[i], series[j])
            require(M[i, j] == M[j, i], "matrix-symmetry",
                    f"M[{i},{j}]={M[i, j]!r} M[{j},{i}]={M[j, i]!r}")
            require(abs(M[i, j] - float(e)) <= tol(i, j), "matrix-covar",
                    lambda: f"M[{i},{j}]={M[i, j]!r} vs exact {float(e)!r} "
                            f"tol {tol(i, j):.3g}")
            if n > 1:
                require(abs(SM[i, j] - float(es)) <= tol(i, j) * n / (n - 1),
                        "matrix-sample-covar",
                        lambda: f"SM[{i},{j}]={SM[i, j]!r} vs {float(es)!r}")
    ser = case["series"]
    ratio = abs(ser["offset"]) / ser["spread"]
    return {"nontrivial": k >= 3 or (ratio >= 1e6 and n >= 10),
            "classes": [f"k={k}", f"feed={case.get('feed')}"]}


# ------------------------------------------------------------- stop run_case

def run_stop(case):
    u = utils()
    gen = case["gen"]
    calls = []

    given_args = tuple(case.get("fn_args", ()))
    given_kw = dict(case.get("fn_kwargs", {}))
    received = []
    exhausted = [False]

    def fn(*args, **kwargs):
        i = len(calls)
        if (args, kwargs) != (given_args, given_kw):
            received.append((args, kwargs))
        if case.get("stop_after") is not None and i >= case["stop_after"]:
            # a finite record that has run out
            exhausted[0] = True
            raise StopIteration("no more samples in the record")
        if gen["kind"] == "constant":
            v = gen["c"]
        elif gen["kind"] == "alternating":
            v = gen["a"] if i % 2 == 0 else gen["b"]
        else:
            vals = gen["values"]
            v = vals[i % len(vals)]
        calls.append(v)
        return v

    opts = dict(rtol=case["rtol"], tol_scale=case["tol_scale"],
                min_samples=case["min_samples"],
                max_samples=case["max_samples"], get=case["get"],
                verbosity=case.get("verbosity", 0))
    ran_out = None
    try:
        with under_test("estimate_from_repeats", expect=(StopIteration,)):
            out = u.estimate_from_repeats(fn, *given_args, **given_kw, **opts)
    except StopIteration as e:
        ran_out = e
    require(not received, "function-arguments",
            lambda: f"the sampled function is to be called with "
                    f"{given_args!r}, {given_kw!r}; it was called with "
                    f"{received[0]!r}")
    if exhausted[0] or ran_out is not None:
        # neither converged nor at the limit: the error of the source must
        # reach the caller, there is no estimate to hand back
        require(ran_out is not None and exhausted[0],
                "silent-stop-on-exhausted-source",
                f"the source of samples ran out after {len(calls)} draws and "
                f"estimate_from_repeats returned as if it had finished")
        return {"nontrivial": True,
                "classes": [f"gen={gen['kind']}", "stop=source-ran-out"]}
    n = len(calls)
    require(1 <= n <= case["max_samples"], "exceeds-max-samples",
            f"{n} calls for max_samples={case['max_samples']}")
    if case["get"] == "samples":
        rs, xs = out
        require(list(xs) == calls, "samples-not-those-drawn",
                f"{xs!r} vs {calls!r}")
    elif case["get"] == "mean":
        rs = u.RunningStatistics()
        rs.update_from_it(calls)
        require(out == rs.mean or abs(out - rs.mean) <= 8 * n * U *
                max(abs(c) for c in calls), "mean-mode", f"{out!r}")
    else:
        rs = out
    require(rs.count == n, "count-vs-calls", f"count {rs.count}, calls {n}")
    check_stats(rs, calls, "repeats")
    stopped_early = n < case["max_samples"]
    if stopped_early:
        require(n >= case["min_samples"], "stopped-before-min-samples",
                f"{n} samples, min_samples={case['min_samples']}")
        lhs = rs.err
        rhs = case["rtol"] * abs(rs.mean) + case["tol_scale"] * case["rtol"]
        require(lhs < rhs, "stopped-unconverged",
                f"stopped after {n} < max_samples={case['max_samples']} with "
                f"err={lhs!r} >= rtol*|mean|+rtol*tol_scale={rhs!r}")
    return {"nontrivial": stopped_early and n > 2,
            "classes": [f"gen={gen['kind']}", f"get={case['get']}",
                        "stop=converged" if stopped_early else "stop=limit"]}


# ---------------------------------------------------------------- strategies

OFFSETS = [0.0, 1.0, -1.0, 1e3, -1e3, 1e6, -1e6, 1e9, -1e9, 123456789.125]
SPREADS = [1e-3, 1e-2, 0.1, 1.0, 10.0, 1e3]


@st.composite
def series_spec(draw, max_inline=40):
    off = draw(st.sampled_from(OFFSETS) | st.floats(-1e9, 1e9))
    spread = draw(st.sampled_from(SPREADS) | st.floats(1e-3, 1e3))
    if draw(st.booleans()):
        noise = draw(st.lists(st.floats(-1, 1).map(lambda z: round(z, 9)),
                              min_size=1, max_size=max_inline))
        return {"offset": off, "spread": spread, "noise": noise}
    return {"offset": off, "spread": spread,
            "seed": draw(st.integers(0, 2**32)),
            "n": draw(st.integers(1, 500)),
            "dist": draw(st.sampled_from(
                ["uniform", "gauss", "constant", "two-level"]))}


@st.composite
def stats_strategy(draw):
    return {"series": draw(series_spec()),
            "cuts": draw(st.lists(st.integers(0, 500), max_size=6)),
            "perm_seed": draw(st.integers(0, 2**16)),
            "sorted": draw(st.sampled_from([None, None, "asc", "desc"]))}


@st.composite
def cov_strategy(draw):
    k = draw(st.integers(2, 4))
    spec = draw(series_spec())
    spec.pop("noise", None)
    spec.setdefault("seed", draw(st.integers(0, 2**32)))
    spec.setdefault("n", draw(st.integers(1, 200)))
    spec.setdefault("dist", "uniform")
    others = [{"seed": draw(st.integers(0, 2**32)),
               "offset": draw(st.sampled_from(OFFSETS)),
               "spread": draw(st.sampled_from(SPREADS)),
               "mix": draw(st.sampled_from([0.0, 1.0, -1.0, 0.5, 2.0]))}
              for _ in range(k)]
    return {"series": spec, "k": k, "others": others,
            "feed": draw(st.sampled_from(["update", "it", "it_array",
                                          "it_gen"])),
            "ties": draw(st.lists(st.tuples(st.integers(0, 199),
                                            st.integers(0, 3)).map(list),
                                  max_size=3)),
            "discrete": draw(st.sampled_from([None, None, 1, 4])),
            "scribble": draw(st.booleans()),
            "empty_chunk": draw(st.sampled_from([None, None, "first",
                                                 "middle"]))}


@st.composite
def stop_strategy(draw):
    kind = draw(st.sampled_from(["constant", "alternating", "noisy"]))
    # (values on a 1e-6 lattice: spreads far below 1e-3 are outside the
    # property's domain and squares of ~1e-155 underflow to sub-normals)
    val = st.floats(-1e6, 1e6).map(lambda v: round(v, 6)) | \
        st.sampled_from([0.0, 1.0, -3.5, 1e-3])
    if kind == "constant":
        gen = {"kind": kind, "c": draw(val)}
    elif kind == "alternating":
        gen = {"kind": kind, "a": draw(val), "b": draw(val)}
    else:
        off = draw(st.sampled_from([0.0, 1.0, 10.0, -5.0, 1e3]))
        sp = draw(st.sampled_from([1e-3, 0.1, 1.0, 10.0]))
        gen = {"kind": kind, "values": [
            off + sp * z for z in draw(st.lists(
                st.floats(-1, 1).map(lambda z: round(z, 9)), min_size=1,
                max_size=25))]}
    return {"gen": gen,
            "rtol": draw(st.sampled_from([1e-3, 0.01, 0.02, 0.1, 0.5, 1.0])),
            "tol_scale": draw(st.sampled_from([0.0, 1e-3, 1.0, 10.0])),
            "min_samples": draw(st.integers(0, 10)),
            "max_samples": draw(st.integers(1, 60)),
            "get": draw(st.sampled_from(["samples", "samples", "stats",
                                         "mean"])),
            "verbosity": draw(st.sampled_from([0, 0, 0, 2])),
            # what the sampled function is called with (names a numerical
            # routine plausibly has)
            "fn_args": draw(st.lists(st.integers(0, 9), max_size=2)),
            "fn_kwargs": draw(st.dictionaries(
                st.sampled_from(["atol", "tol", "eps", "size", "seed",
                                 "scale", "n", "shape", "axis", "dtype",
                                 "maxiter", "out"]),
                st.integers(0, 5) | st.sampled_from([0.05, 1e-8]),
                max_size=2)),
            "stop_after": draw(st.sampled_from(
                [None, None, None, 0, 1, 3, 7, 20]))}


PHASES = [
    Phase("stats", run_stats, strategy=stats_strategy,
          examples={"quick": 8000, "thorough": 80000}),
    Phase("cov", run_cov, strategy=cov_strategy,
          examples={"quick": 3200, "thorough": 30000}),
    Phase("stop", run_stop, strategy=stop_strategy,
          examples={"quick": 8000, "thorough": 100000}),
]
