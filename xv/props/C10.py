"""C10 - killing a worker at any instant never corrupts what is later reaped
(enumerated crash points, forked victims, recovery in fresh processes)."""
import os
import sys
import pickle
import shutil
import itertools
import traceback

import numpy as np

from .. import core, models, crops, labelled, fsx
from ..core import Phase, under_test, require

ID = "C10"
LEVEL = "fault_enumeration"
RULE = (
    "scenarios: raw / Runner / Harvester (with earlier harvested data in the "
    "file) / Sampler (with earlier rows) crops of 2-5 batches, small and "
    "> 8 KiB results, shuffle on/off; the victim is one of {sow, re-sow over "
    "a partly grown crop, Crop.grow(ids), grow_missing, xyzpy.grow(i), reap "
    "(with sync and clean-up)}.  For every scenario a dry run under the "
    "interceptor counts the K mutating file operations of the victim (create, "
    "each write call in <= 8 KiB chunks, close, os.replace, os.remove, every "
    "unlink/rmdir of rmtree, makedirs, and begin / torn / end of the "
    "harvester's and sampler's save call, whose bytes are written by C "
    "libraries); EVERY k < K is a crash point, write operations additionally "
    "with prefixes {1 byte, half, all but one}: a forked child runs the "
    "victim and calls os._exit(137) there (buffers are lost, no finally "
    "blocks run).  Thorough adds a second crash during recovery.  Oracle, in "
    "fresh forked processes that only know name and directory: (1) an "
    "immediate reap() raises or returns exactly the uninterrupted result; "
    "(2) the documented recovery (re-sow if the sown files are incomplete, "
    "check_bad, grow_missing, reap) returns exactly the uninterrupted result; "
    "(3) the data earlier merged into the harvester's file (earlier sampler "
    "rows) is still there after the crash and after recovery, together with "
    "the new data.  Non-trivial = crash strictly inside a write, between a "
    "remove and the next write, inside rmtree, or inside a save call.  "
    "Distinct by construction."
)
ASSUMPTIONS = [
    "process death only (no power loss: data handed to the OS is durable)",
    "bytes written by HDF5/pandas are not intercepted call by call; the save "
    "call is represented by three states of its target: untouched, torn "
    "(half of the bytes), complete",
    "the recovering user re-sows when the crash hit a sower or left the sown "
    "files unreadable/incomplete, as the documentation prescribes",
]

MUTATING = ("create", "write", "close", "replace", "rename", "remove",
            "rmtree-begin", "rmtree-unlink", "rmtree-rmdir", "makedirs",
            "save-begin", "save-torn", "save-end")


def xyz():
    x = core.import_target()
    # victims and recoveries are forked: no worker threads may be alive in
    # the parent (dask's default scheduler keeps a thread pool)
    import dask
    dask.config.set(scheduler="synchronous")
    return x


# ------------------------------------------------------------------ scenario

SPEC = {"vars": [["out", []], ["z_", []]], "sizes": {}, "ret": "tuple",
        "log": None}


def spec_of(sc):
    if sc.get("bulk"):
        # the second variable is a long vector: the harvested dataset is tens
        # of MiB (data sets of that size are everyday for this library)
        return {"vars": [["out", []], ["z_", ["t"]]],
                "sizes": {"t": sc["bulk"]}, "ret": "tuple", "log": None}
    return SPEC


def sampler_file(sc):
    # (a data name without any dot is as good as one with an extension)
    if sc.get("engine") == "csv":
        return "samples.csv"
    return "samples" if sc.get("bare_name") else "samples.pkl"


def make_farmer(x, sc, D):
    kind = sc["farmer"]
    if kind == "raw":
        return None, crops.record(sc["kind"], None)
    fn = labelled.make_fn(spec_of(sc))
    r = x.Runner(fn, ("out", "z_"),
                 **({"var_dims": {"z_": ["t"]}} if sc.get("bulk") else {}))
    if kind == "runner":
        return r, fn
    if kind == "harvester":
        if sc.get("engine") == "joblib":
            return x.Harvester(r, data_name=os.path.join(D, "full.dmp"),
                               engine="joblib"), fn
        if sc.get("chunks"):
            # lazily loaded (dask-backed) full dataset
            return x.Harvester(r, data_name=os.path.join(D, "full.h5"),
                               chunks=sc["chunks"]), fn
        return x.Harvester(r, data_name=os.path.join(D, "full.h5")), fn
    if kind == "sampler" and sc.get("engine") == "csv":
        return x.Sampler(r, data_name=os.path.join(D, sampler_file(sc)),
                         engine="csv",
                         default_combos={"a": list(range(sc["N"])),
                                         "b": ["p", "q"]}), fn
    return x.Sampler(r, data_name=os.path.join(D, sampler_file(sc)),
                     default_combos={"a": list(range(sc["N"])),
                                     "b": ["p", "q"]}), fn


def combos_of(sc):
    return {"a": list(range(sc["N"])), "b": ["p"]}


def new_crop(x, sc, D, autoload=True):
    farmer, fn = make_farmer(x, sc, D)
    kw = dict(name="c10", parent_dir=D, num_batches=sc["B"])
    if farmer is None:
        return x.Crop(fn=fn, autoload=autoload, **kw)
    import xyzpy.gen.cropping as cropping
    return cropping.Crop(farmer=farmer, autoload=autoload, **kw)


def sow(x, sc, D, crop=None, again=0):
    crop = crop or new_crop(x, sc, D)
    if sc["farmer"] == "sampler":
        # (a later sow - the victim's in phase 're-sow', the recovery's -
        # draws other random samples than the one before, as a new process
        # would)
        np.random.seed(sc["seed"] + 7919 * again)
        crop.sow_samples(sc["N"], verbosity=0)
    else:
        crop.sow_combos(combos_of(sc), shuffle=sc.get("shuffle", False),
                        verbosity=0)
    return crop


def setup(x, sc, D):
    """Build the pre-state; returns what an uninterrupted run delivers."""
    os.makedirs(D)
    ctx = {"pre_rows": []}
    if sc["farmer"] == "harvester" and not sc.get("no_pre"):
        f, _ = make_farmer(x, sc, D)
        f.harvest_combos({"a": [100, 101], "b": ["p"]}, verbosity=0)
    if sc["farmer"] == "sampler" and not sc.get("no_pre"):
        f, _ = make_farmer(x, sc, D)
        np.random.seed(sc["seed"] + 1)
        f.sample_combos(3, verbosity=0)
        ctx["pre_rows"] = _rows(f.full_df)
    phase = sc["phase"]
    if phase != "sow":
        crop = sow(x, sc, D)
        B = len(crops.batch_ids(D, "c10"))
        pre = sorted({i % B + 1 for i in sc.get("pre_grown", [])})
        if phase == "reap":
            pre = list(range(1, B + 1))
        for i in pre:
            crop.grow(i)
        ctx["pre"] = pre
    return ctx


def reap_kw(sc):
    # (Harvester crops are also reaped with the overwriting policy)
    if sc["farmer"] == "harvester" and sc.get("overwrite"):
        return {"overwrite": True}
    return {}


def victim(x, sc, D):
    phase = sc["phase"]
    if phase in ("sow", "resow"):
        sow(x, sc, D)      # (the same work again)
        return
    crop = x.Crop(name="c10", parent_dir=D)
    B = crop.num_batches
    if phase == "grow_crop":
        ids = [i for i in range(1, B + 1)]
        crop.grow(tuple(i for i in ids if i not in
                        {j % B + 1 for j in sc.get("pre_grown", [])}) or (1,))
    elif phase == "grow_missing":
        crop.grow_missing()
    elif phase == "grow_fn":
        miss = crop.missing_results()
        x.grow(miss[0] if miss else 1, crop=crop, verbosity=0)
    elif phase == "reap":
        crop.reap(**reap_kw(sc))


def sown_files_sound(x, sc, D):
    import xyzpy.gen.cropping as cropping
    loc = crops.crop_dir(D, "c10")
    try:
        info = cropping.read_from_disk(os.path.join(loc, cropping.INFO_NM))
        cropping.from_pickle(cropping.read_from_disk(
            os.path.join(loc, cropping.FNCT_NM)))
        nb = info["num_batches"]
        if nb != sc["B"] and sc["farmer"] != "sampler":
            return False
        sown = []
        for i in range(1, nb + 1):
            b = cropping.read_from_disk(os.path.join(
                loc, "batches", cropping.BTCH_NM.format(i)))
            if not len(b):
                return False
            sown += list(b)
        if sc["farmer"] == "sampler":
            # a sow of random samples that was cut short leaves batch files of
            # two different draws: the batches must be the samples that the
            # settings file records
            args_ = list(info["fn_args"])
            want = [tuple(models.plain(c[a] if isinstance(c, dict) else v)
                          for a, v in zip(args_, c if not isinstance(c, dict)
                                          else args_))
                    for c in info["cases"]]
            got = [tuple(models.plain(kw[a]) for a in args_) for kw in sown]
            if got != want:
                return False
        if not os.path.isdir(os.path.join(loc, "results")):
            return False
        return True
    except Exception:
        return False


def recover(x, sc, D):
    """What the documentation tells the user to do after a crash."""
    if sc["phase"] in ("sow", "resow") or not sown_files_sound(x, sc, D):
        try:
            crop = new_crop(x, sc, D)
        except Exception:
            crop = new_crop(x, sc, D, autoload=False)
        crop = sow(x, sc, D, crop, again=2)
    crop = x.Crop(name="c10", parent_dir=D)
    crop.check_bad()
    crop.grow_missing()
    return crop.reap(**reap_kw(sc))


def immediate(x, sc, D):
    crop = x.Crop(name="c10", parent_dir=D)
    return crop.reap(**reap_kw(sc))


# ------------------------------------------------------------ child running

def run_child(fn, out_path=None, controller=None, root=None, wrap_save=False):
    """fork; in the child optionally install the crash controller; run fn;
    report through out_path.  Returns (exit status, payload or None)."""
    if out_path and os.path.exists(out_path):
        os.remove(out_path)
    pid = os.fork()
    if pid == 0:
        code = 0
        try:
            devnull = open(os.devnull, "w")
            sys.stdout = sys.stderr = devnull
            if controller is not None:
                fsx.RMTREE_ORDER = getattr(controller, "rm_order", "scandir")
                icpt = fsx.Interceptor(root, controller, all_threads=True)
                icpt.install()
                if wrap_save:
                    _wrap_saves(icpt)
            try:
                res = ("ok", fn())
            except BaseException as e:  # noqa
                res = ("raised", (type(e).__name__, str(e)[:300],
                                  traceback.format_exc()[-1500:]))
            fsx.Interceptor.uninstall()
            if controller is not None and out_path:
                res = res + (list(controller.trace),)
            if out_path:
                with fsx._real["open"](out_path, "wb") as f:
                    try:
                        pickle.dump(res, f)
                    except Exception:
                        pickle.dump((res[0], repr(res[1])[:2000]) + res[2:],
                                    f)
        except BaseException:
            code = 3
        finally:
            os._exit(code)
    _, status = os.waitpid(pid, 0)
    code = os.waitstatus_to_exitcode(status)
    payload = None
    if out_path and os.path.exists(out_path):
        with open(out_path, "rb") as f:
            payload = pickle.load(f)
    return code, payload


def _wrap_saves(icpt):
    """save_ds / save_df write through C libraries: represent the call by
    begin / torn / end crash points on its target file."""
    import xyzpy.gen.farming as farming
    import xyzpy.manage as manage

    def wrap(real, ext_engine):
        def wrapped(obj, file_name, *a, **k):
            target = file_name
            if ext_engine:
                target = manage.auto_add_extension(
                    file_name, k.get("engine", "h5netcdf"))
            icpt.op("save-begin", target)
            # torn: the complete bytes go to a side file, half reach the target
            side = target + ".xv-side"
            cut = icpt.ctl.peek_torn()
            if cut:
                real(obj, side, *a, **k) if not ext_engine else \
                    real(obj, side + _ext(target), *a, **k)
                src = side if not ext_engine else side + _ext(target)
                data = fsx._real["open"](src, "rb").read()
                fsx._real["remove"](src)
                with fsx._real["open"](target, "wb") as f:
                    f.write(data[:len(data) // 2])
                os._exit(137)
            icpt.op("save-torn", target)
            out = real(obj, file_name, *a, **k)
            icpt.op("save-end", target)
            return out
        return wrapped

    def _ext(t):
        return os.path.splitext(t)[1]
    farming.save_ds = wrap(farming.save_ds, True)
    farming.save_df = wrap(farming.save_df, False)


class Crash(fsx.CrashAt):
    """Counts only mutating operations; 'save-torn' at k tears the file."""

    def __init__(self, k=None, prefix=None, rm_order="scandir"):
        super().__init__(k, prefix)
        self.rm_order = rm_order

    def op(self, kind, path, **info):
        if kind not in MUTATING:
            return None
        return super().op(kind, path, **info)

    def peek_torn(self):
        # next op index is self.n (save-begin already counted): the torn
        # point is the op right after save-begin
        return self.k is not None and self.n == self.k and \
            self.prefix == "torn"


# ------------------------------------------------------------------ oracles

def _rows(df):
    cols = sorted(df.columns)
    return sorted(tuple(repr(models.plain(df.iloc[i][c])) for c in cols)
                  for i in range(len(df)))


def expected_of(x, sc, D):
    """The uninterrupted result, computed in the parent from the model."""
    if sc["farmer"] == "raw":
        fn = crops.record(sc["kind"], None)
        return x.combo_runner(fn, combos_of(sc), verbosity=0)
    return None


def check_delivery(x, sc, D, res, ctx, tag, batches=None):
    """res: what a reap returned (already unpickled in the parent)."""
    kind = sc["farmer"]
    if kind == "raw":
        want = ctx["expected"]
        require(models.deep_eq(res, want), f"{tag}-wrong-data",
                lambda: f"{tag}: {res!r:.300} vs uninterrupted "
                        f"{want!r:.300}")
    elif kind in ("runner", "harvester"):
        labelled.check_dataset(
            res, spec=spec_of(sc), fn_args=["a", "b"],
            coords={"a": list(range(sc["N"])), "b": ["p"]}, requested=None,
            fn_kwargs_extra={}, constants={}, resources={}, attrs={},
            var_coords=None, explicit_names=True, tag=tag)
    else:
        labelled.check_dataframe(
            res, spec=SPEC, fn_args=["a", "b"], settings=None,
            fn_kwargs_extra={}, constants={}, resources={}, attrs={},
            n_rows=sc["N"], tag=tag)


def check_store(x, sc, D, ctx, tag, need_new, delivered=None):
    """Earlier data must have survived (and the new data be there)."""
    kind = sc["farmer"]
    if sc.get("no_pre") and not need_new:
        return      # first ever sync: there is no earlier data to survive
    if kind == "harvester":
        path = os.path.join(D, "full.dmp" if sc.get("engine") == "joblib"
                            else "full.h5")
        eng = {"engine": "joblib"} if sc.get("engine") == "joblib" else {}
        require(os.path.exists(path), "harvester-file-lost",
                f"{tag}: the harvester's file is gone")
        try:
            ds = x.load_ds(path, **eng)
        except Exception as e:
            core.violated("harvester-file-corrupt",
                          f"{tag}: the harvester's file cannot be loaded: "
                          f"{type(e).__name__}: {e}")
        for a in (() if sc.get("no_pre") else (100, 101)):
            ok = a in ds["a"].values.tolist()
            if ok:
                v = float(ds["out"].sel(a=a, b="p").values)
                ok = v == labelled.var_value({"a": a, "b": "p"}, 0, ())
            require(ok, "earlier-harvest-lost",
                    f"{tag}: the point a={a} harvested before the crash is "
                    f"no longer in the file")
        if need_new:
            for a in range(sc["N"]):
                ok = a in ds["a"].values.tolist() and float(
                    ds["out"].sel(a=a, b="p").values) == \
                    labelled.var_value({"a": a, "b": "p"}, 0, ())
                require(ok, "new-harvest-missing",
                        f"{tag}: a={a} is not in the file after recovery")
    elif kind == "sampler":
        path = os.path.join(D, sampler_file(sc))
        require(os.path.exists(path), "sampler-file-lost",
                f"{tag}: the sampler's file is gone")
        try:
            df = x.load_df(path, engine="csv") \
                if sc.get("engine") == "csv" else x.load_df(path)
        except Exception as e:
            core.violated("sampler-file-corrupt",
                          f"{tag}: {type(e).__name__}: {e}")
        rows = _rows(df)
        import collections
        have = collections.Counter(rows)
        for r in ctx["pre_rows"]:
            require(have[r] >= 1, "earlier-samples-lost",
                    f"{tag}: an earlier row is missing: {r}")
        if need_new:
            require(len(df) >= len(ctx["pre_rows"]) + sc["N"],
                    "new-samples-missing",
                    f"{tag}: {len(df)} rows, expected at least "
                    f"{len(ctx['pre_rows'])} + {sc['N']}")
            # as after an uninterrupted run, the rows that the (last) reap
            # handed to the caller are rows of the table
            for r in (_rows(delivered) if delivered is not None else ()):
                require(have[r] >= 1, "delivered-rows-not-in-table",
                        f"{tag}: the reap returned the row {r} but the "
                        f"sampler's file does not hold it")


# ------------------------------------------------------------------ run_case

_dry = {}


def dry_run(sc):
    """-> list of (kind, basename, size) of the victim's mutating ops."""
    key = models.canon_kw({k: v for k, v in sc.items()
                           if k not in ("k", "prefix", "k2")})
    if key in _dry:
        return _dry[key]
    x = xyz()
    with core.scratch("xv-c10d-") as top:
        D = os.path.join(top, "w")
        with core.quiet():
            setup(x, sc, D)
        out = os.path.join(top, "out.pkl")
        code, payload = run_child(lambda: victim(x, sc, D), out,
                                  Crash(None, None, sc.get('rm_order', 'scandir')), D,
                                  wrap_save=True)
        if code != 0 or payload is None or payload[0] != "ok":
            raise core.HarnessError(f"dry run failed: {code} {payload!r:.600}")
        _dry[key] = payload[2]
    return _dry[key]


def run_case(case):
    x = xyz()
    sc = case
    k, prefix = case["k"], case.get("prefix")
    if case.get("uninterrupted"):
        return run_uninterrupted(x, sc)
    with core.scratch("xv-c10-") as top:
        D = os.path.join(top, "w")
        out = os.path.join(top, "out.pkl")
        with core.quiet():
            ctx = setup(x, sc, D)
        ctx["expected"] = expected_of(x, sc, D)
        # -------- the victim dies at operation k
        code, _ = run_child(lambda: victim(x, sc, D), None,
                            Crash(k, prefix, sc.get('rm_order', 'scandir')), D,
                            wrap_save=True)
        if code == 0:
            raise core.HarnessError(f"victim survived crash point {k}")
        require(code == 137, "harness-victim",
                f"victim exited with {code} instead of being killed")
        snap = os.path.join(top, "crash-state")
        shutil.copytree(D, snap)
        # -------- (3a) earlier data right after the crash
        check_store(x, sc, D, ctx, "after the crash", need_new=False)
        # -------- (1) an immediate reap: refuse or be exact
        code, payload = run_child(lambda: immediate(x, sc, D), out)
        if payload is not None and payload[0] == "ok":
            check_delivery(x, sc, D, payload[1], ctx, "immediate-reap", None)
            outcome = "immediate-exact"
        else:
            require(payload is not None, "harness-immediate",
                    f"immediate reap child died with {code}")
            outcome = "immediate-refused:" + payload[1][0]
        shutil.rmtree(D)
        shutil.copytree(snap, D)
        # -------- (2) documented recovery, optionally crashing once more
        if case.get("k2") is not None:
            run_child(lambda: recover(x, sc, D), None,
                      Crash(case["k2"], None, sc.get('rm_order', 'scandir')),
                      D, wrap_save=True)
            check_store(x, sc, D, ctx, "after the second crash",
                        need_new=False)
        code, payload = run_child(lambda: recover(x, sc, D), out)
        require(payload is not None, "harness-recovery",
                f"recovery child died with {code}")
        if payload[0] != "ok":
            core.violated(f"recovery-failed:{payload[1][0]}",
                          f"documented recovery after crash at op {k} "
                          f"({case.get('op')}) raised {payload[1][0]}: "
                          f"{payload[1][1]}\n{payload[1][2]}")
        check_delivery(x, sc, D, payload[1], ctx, "recovery")
        check_store(x, sc, D, ctx, "after recovery", need_new=True,
                    delivered=payload[1] if sc["farmer"] == "sampler"
                    else None)
    op = case.get("op", ["?"])[0]
    nt = prefix is not None or op in ("rmtree-unlink", "rmtree-rmdir",
                                      "save-torn", "save-begin") or \
        case.get("after_remove")
    return {"nontrivial": bool(nt),
            "classes": [f"farmer={sc['farmer']}", f"phase={sc['phase']}",
                        f"op={op}", outcome.split(":")[0],
                        "torn-write" if prefix else "op-boundary",
                        "double-crash" if case.get("k2") is not None
                        else "single-crash"] +
                       (["dataset>64MiB"] if sc.get("bulk") else [])}


def run_uninterrupted(x, sc):
    """The crash 'after the last operation' of the previous step: the next
    documented step (re-sow / grow / reap from a new process), run without
    any interference, must work."""
    with core.scratch("xv-c10u-") as top:
        D = os.path.join(top, "w")
        out = os.path.join(top, "out.pkl")
        with core.quiet():
            setup(x, sc, D)
        code, payload = run_child(lambda: victim(x, sc, D), out)
        if payload is None:
            raise core.HarnessError(f"uninterrupted child died with {code}")
        if payload[0] != "ok":
            core.violated(
                f"step-fails-without-crash:{payload[1][0]}",
                f"{sc['phase']} from a new process on the state left by the "
                f"completed previous step raised {payload[1][0]}: "
                f"{payload[1][1]}\n{payload[1][2]}")
    raise core.HarnessError("dry run failed but the step works: harness bug")


# -------------------------------------------------------------- enumeration

def scenarios(tier, seed):
    import random
    rng = random.Random(seed)
    out = []
    phases = ["sow", "resow", "grow_crop", "grow_missing", "grow_fn", "reap"]
    for farmer in ("raw", "runner", "harvester", "sampler"):
        for phase in phases:
            if farmer == "sampler" and phase == "resow":
                # sowing samples again over existing results is not a crash
                # matter (new random samples never fit old results) and the
                # property speaks of sow_combos
                continue
            reps = 3 if tier == "quick" else 30
            for r in range(reps):
                B = rng.randint(2, 4 if tier == "quick" else 5)
                sc = {"farmer": farmer, "phase": phase, "B": B,
                      "N": B + rng.randint(0, 2),
                      "kind": "big" if (farmer == "raw" and
                                        rng.random() < .5) else "int",
                      "shuffle": rng.random() < .4,
                      "seed": rng.randint(0, 2**31),
                      "pre_grown": [rng.randint(0, 9)
                                    for _ in range(rng.randint(0, 2))],
                      "rm_order": rng.choice(["scandir", "sorted",
                                              "reversed"])}
                if farmer in ("harvester", "sampler") and r % 3 == 2:
                    # the crop's reap is the first thing ever written to the
                    # farmer's data file
                    sc["no_pre"] = True
                if farmer == "harvester" and r % 3 == 1:
                    sc["engine"] = "joblib"
                if farmer == "harvester" and r % 3 == 0:
                    sc["chunks"] = 2
                if farmer == "harvester" and rng.random() < 0.5:
                    sc["overwrite"] = True
                if farmer == "sampler" and r % 3 == 1:
                    sc["bare_name"] = True
                if farmer == "sampler" and r % 3 == 0:
                    sc["engine"] = "csv"
                out.append(sc)
    # a harvester whose dataset is well beyond 64 MiB, the reap-and-merge
    # being the victim (in memory and lazily loaded, both engines)
    for r in range(1 if tier == "quick" else 3):
        r = (r + seed) % 3
        N = rng.randint(3, 4)
        sc = {"farmer": "harvester", "phase": "reap", "B": 2, "N": N,
              "kind": "int", "shuffle": False, "seed": rng.randint(0, 2**31),
              "pre_grown": [], "rm_order": "scandir",
              "bulk": (72 << 20) // (8 * (N + 2)) + rng.randint(1, 999)}
        if r == 1:
            sc["engine"] = "joblib"
        if r == 2:
            sc["chunks"] = {"a": 2}
        out.append(sc)
    return out


def enumerate_cases(tier, seed):
    import random
    for sc in scenarios(tier, seed):
        try:
            with core.quiet():
                ops = dry_run(sc)
        except core.HarnessError:
            # the step fails without any crash: decided (violation or
            # harness error) in run_case
            yield dict(sc, k=None, uninterrupted=True)
            continue
        rng = random.Random(models.kw_number(
            {k: v for k, v in sc.items() if k != "pre_grown"}))
        for k, op in enumerate(ops):
            after_remove = k > 0 and ops[k - 1][0] == "remove"
            base = dict(sc, k=k, op=list(op), after_remove=after_remove)
            yield base
            if op[0] == "write":
                for p in (1, "half", "all-but-one"):
                    yield dict(base, prefix=p)
            if op[0] == "save-torn":
                yield dict(base, prefix="torn")
            if rng.random() < (0.25 if tier == "thorough" else 0.05):
                yield dict(base, k2=rng.randint(0, 25))


PHASES = [
    Phase("crash-points", run_case, enumerate=enumerate_cases,
          distinct_by_construction=True,
          exhaustive={"quick": True, "thorough": True}),
]
