"""C05 - the harvested dataset is the faithful merge of everything ever
harvested (model-based histories)."""
import os
import math
import copy
import functools
import itertools

import numpy as np
from hypothesis import strategies as st

from .. import core, models
from ..core import Phase, under_test, require

ID = "C05"
LEVEL = "exploration"
RULE = (
    "histories (1-8 steps) over a small coordinate universe (a: 4 ints, b: 3 "
    "strs, c: 3 floats that starts as a constant) of harvest_combos(sub-grid), "
    "harvest_cases(subset), add_ds(dataset), expand_dims(the constant "
    "argument; later steps sweep it), drop_sel(label), explicit "
    "save_full_ds(), in-place changes to the dataset that was just "
    "harvested (the caller's own or runner.last_ds), a session started from "
    "Harvester(full_ds=...), and NEW SESSION (fresh Harvester on the same "
    "data name), each harvest with overwrite in {None, True, False}, sync on/off "
    "and an epoch that makes its values identical to, or different from, "
    "earlier ones; engines h5netcdf/joblib; data names with and without "
    "extension; 1-2 variables (one with an internal dimension).  A second "
    "phase does the same for save_merge_ds on a bare file; a third harvests "
    "over a DATE-valued argument (datetime objects, numpy dates of unit "
    "D / s / ns) with a number and a text output (the text is empty at a "
    "third of the settings), all three policies and new sessions.  Model: "
    "dict[coordinates] -> values with the three policies (None: identical/"
    "disjoint merge, a conflict raises and NOTHING changes; True: new wins; "
    "False: old wins).  After EVERY step: Harvester.full_ds == model by "
    "label (NaN exactly where the model has no entry, coordinates == sorted "
    "labels), load_ds(data_name) == the model's disk half, an expected "
    "conflict raised MergeError and left both unchanged.  Non-trivial = >=3 "
    "steps with an overlap of a different epoch, or a new session after a "
    "harvest."
)
ASSUMPTIONS = [
    "after a step with sync=False only the in-memory dataset is compared "
    "until data is written again; a new session is preceded by "
    "save_full_ds() when un-synced data is pending (dropping the object "
    "would legitimately drop it)",
    "after expand_dims every later harvest sweeps the new dimension",
]

# (an int coordinate that later turns float; two labels one bit apart)
A_VALS = [1, 2, 3, 2.5, 2.5000000000000004]
B_VALS = ["p", "qq", "rrr"]       # growing lengths on purpose
C_VALS = [0.5, 1.5, 2.5]
UNIVERSE = {"a": A_VALS, "b": B_VALS, "c": C_VALS}
T_COORD = [10, 20]


def xyz():
    return core.import_target()


def value(var, a, b, c, epoch):
    base = float(models.kw_number({"a": a, "b": b, "c": c}, salt=var) % 4096)
    if var == 0:
        return base + epoch
    return np.array([base + epoch, base + epoch + 0.25])


def harvest_fn(a, b, c, epoch=0, nvars=1):
    out = tuple(value(j, a, b, c, epoch) for j in range(nvars))
    return out if nvars > 1 else out[0]


class Model:
    """coords: {dim: set(labels)}; data: {loc tuple (a, b[, c]): epoch}.
    Values are a function of (loc, epoch) so storing the epoch is enough."""

    def __init__(self):
        self.dims = ["a", "b"]
        self.coords = {"a": set(), "b": set()}
        self.data = {}
        self.exists = False

    def clone(self):
        return copy.deepcopy(self)

    def merge(self, new, policy):
        """new: {loc: epoch}.  Returns False on conflict (nothing changed)."""
        if policy is None:
            for loc, e in new.items():
                if loc in self.data and self.data[loc] != e:
                    return False
        for loc, e in new.items():
            if loc not in self.data or policy is True or policy is None:
                self.data[loc] = e
        return True

    def add_coords(self, new_coords):
        for d, labs in new_coords.items():
            self.coords[d] |= set(labs)
        self.exists = True


def check_against(ds, model, c0, nvars, tag):
    require(ds is not None, "dataset-missing", f"{tag}: no dataset")
    for d in model.dims:
        require(d in ds.dims, "dimension-missing",
                f"{tag}: {d} not in {dict(ds.sizes)}")
        want = sorted(model.coords[d])
        got = ds[d].values.tolist()
        # the order of labels is xarray's business (given order for a first
        # harvest, sorted after a merge): compare as duplicate-free sets
        require(sorted(got) == want, "coordinate-labels",
                f"{tag}: coordinate {d} = {got}, every label ever harvested "
                f"(and not dropped) = {want}")
    names = ["v0", "v1"][:nvars]
    for nm in names:
        require(nm in ds.data_vars, "variable-missing", f"{tag}: {nm}")
    for loc in itertools.product(*[sorted(model.coords[d])
                                   for d in model.dims]):
        sel = dict(zip(model.dims, loc))
        full = loc if len(loc) == 3 else loc + (c0,)
        for j, nm in enumerate(names):
            got = np.asarray(ds[nm].sel(sel).values, dtype=float)
            if loc in model.data:
                want = np.asarray(value(j, *full, model.data[loc]),
                                  dtype=float)
                require(got.shape == want.shape and
                        np.array_equal(got, want), "harvested-value",
                        lambda: f"{tag}: {nm} at {sel} = {got.tolist()}, "
                                f"model says {want.tolist()} (epoch "
                                f"{model.data[loc]})")
            else:
                require(bool(np.isnan(got).all()), "phantom-value",
                        lambda: f"{tag}: {nm} at {sel} = {got.tolist()} but "
                                f"nothing was ever harvested there")


def run_case(case):
    x = xyz()
    import xarray as xr
    nvars = case["nvars"]
    c0 = C_VALS[case["c0"] % len(C_VALS)]
    engine = case["engine"]
    stats = {"conflicts": 0, "sessions": 0, "overlaps": 0, "auto_flush": 0,
             "rival": 0, "scribble": 0}
    tainted = [False]
    try:
        return _run_case(x, xr, case, nvars, c0, engine, stats, tainted)
    except core.PropertyViolation as e:
        if tainted[0]:
            raise core.PropertyViolation(
                "unsynced-data-dropped",
                f"[after a synced harvest with un-synced data pending] "
                f"{e.key}: {e.detail}") from None
        raise


def _run_case(x, xr, case, nvars, c0, engine, stats, tainted):
    with core.scratch("xv-c05-") as root:
        data_name = os.path.join(root, case["dname"])
        expanded = [False]

        def make_runner(epoch):
            fn = functools.partial(harvest_fn, nvars=nvars)
            consts = {} if expanded[0] else {"c": c0}
            names = ("v0", "v1")[:nvars]
            return x.Runner(fn, names if nvars > 1 else "v0",
                            fn_args=("a", "b", "c") if expanded[0]
                            else ("a", "b"),
                            var_dims={"v1": "t"} if nvars > 1 else None,
                            var_coords={"t": T_COORD} if nvars > 1 else None,
                            constants=consts, resources={"epoch": epoch})

        per_call = bool(case.get("engine_per_call"))
        ekw = {"engine": engine} if per_call else {}

        def new_session():
            if per_call:
                # default engine at construction, the real one on every call
                return x.Harvester(make_runner(0), data_name=data_name)
            return x.Harvester(make_runner(0), data_name=data_name,
                               engine=engine)

        h = new_session()
        mem, disk = Model(), Model()
        pending = False     # memory holds data the disk does not
        init = case.get("init_full_ds")
        if init:
            # the session starts from a dataset handed to the constructor
            isel = {d: sorted({UNIVERSE[d][i % len(UNIVERSE[d])]
                               for i in init[d]}, key=UNIVERSE[d].index)
                    for d in ("a", "b")}
            ids_ = make_runner(0).run_combos(isel, verbosity=0)
            if per_call:
                h = x.Harvester(make_runner(0), data_name=data_name,
                                full_ds=ids_)
            else:
                h = x.Harvester(make_runner(0), data_name=data_name,
                                engine=engine, full_ds=ids_)
            mem.merge({loc: 0 for loc in
                       itertools.product(isel["a"], isel["b"])}, True)
            mem.add_coords({d: set(v) for d, v in isel.items()})
            pending = True
        rival = [None]      # a second, long-lived session on the same file
        stale = False       # the rival wrote after h last loaded

        def verify(tag):
            if mem.exists and not stale:
                with under_test("full_ds"):
                    if per_call and h._full_ds is None:
                        h.load_full_ds(engine=engine)
                    full = h.full_ds
                check_against(full, mem, c0, nvars, f"{tag}: full_ds")
            if disk.exists:
                with under_test("load_ds"):
                    on_disk = x.load_ds(data_name, engine=engine)
                check_against(on_disk, disk, c0, nvars,
                              f"{tag}: load_ds(data_name)")

        for k, op in enumerate(case["ops"]):
            o = op["op"]
            tag = f"step{k}:{o}"
            if o in ("combos", "cases", "add_ds"):
                dims = ["a", "b"] + (["c"] if expanded[0] else [])
                if o == "cases":
                    locs = []
                    for ia, ib, ic in op["locs"]:
                        loc = (A_VALS[ia % 4], B_VALS[ib % 3]) + (
                            (C_VALS[ic % 3],) if expanded[0] else ())
                        if loc not in locs:
                            locs.append(loc)
                    new_coords = {d: {l[i] for l in locs}
                                  for i, d in enumerate(dims)}
                else:
                    sel = {d: sorted({UNIVERSE[d][i % len(UNIVERSE[d])]
                                      for i in op["sel"][d]},
                                     key=UNIVERSE[d].index)
                           for d in dims}
                    if op.get("reverse"):
                        sel = {d: v[::-1] for d, v in sel.items()}
                    locs = list(itertools.product(*[sel[d] for d in dims]))
                    new_coords = {d: set(v) for d, v in sel.items()}
                epoch, pol, sync = op["epoch"], op["overwrite"], op["sync"]
                by_rival = bool(op.get("rival")) and disk.exists
                actor = h
                if by_rival:
                    sync = True
                    if pending:
                        with under_test("save_full_ds before the rival acts"):
                            h.save_full_ds(**ekw)
                        disk = mem.clone()
                        pending = False
                    if rival[0] is None:
                        rival[0] = new_session()
                    actor = rival[0]
                    mem_before = mem
                    mem = disk.clone()
                elif stale:
                    # h's memory is out of date: a synced harvest reloads it
                    sync = True
                    mem = disk.clone()
                if sync and pending and disk.exists:
                    # (with no file yet a synced harvest keeps what is in
                    # memory and writes all of it: nothing to exclude)
                    # known finding 'unsynced-data-dropped': a synced harvest
                    # reloads the disk dataset and forgets data harvested with
                    # sync=False.  Excluded by construction (flush first)
                    # unless the case asks for the raw behaviour.
                    if case.get("no_auto_flush"):
                        tainted[0] = True
                    else:
                        with under_test("save_full_ds (auto flush)"):
                            h.save_full_ds(**ekw)
                        disk = mem.clone()
                        pending = False
                        stats["auto_flush"] += 1
                new = {loc: epoch for loc in locs}
                if any(l in mem.data and mem.data[l] != epoch for l in new):
                    stats["overlaps"] += 1
                # ---- what should happen
                base = mem.clone()
                ok = base.merge(new, pol)
                # ---- do it
                actor.runner.resources = {"epoch": epoch}
                actor.runner.constants = {} if expanded[0] else {"c": c0}
                actor.runner.fn_args = tuple(dims)
                raised = None
                try:
                    with under_test(tag, expect=(xr.MergeError,)):
                        if o == "combos":
                            actor.harvest_combos(
                                {d: sel[d] for d in dims}, overwrite=pol,
                                sync=sync, verbosity=0, **ekw)
                        elif o == "cases" and op.get("as_dicts"):
                            # each case a dict, keys in an order of its own
                            dcs_ = []
                            for i_, l_ in enumerate(locs):
                                it_ = list(zip(dims, l_))
                                r_ = (i_ + op["as_dicts"]) % len(it_)
                                dcs_.append(dict(it_[r_:] + it_[:r_]))
                            actor.harvest_cases(dcs_, overwrite=pol,
                                                sync=sync, verbosity=0, **ekw)
                        elif o == "cases":
                            actor.harvest_cases(locs, overwrite=pol, sync=sync,
                                                fn_args=tuple(dims),
                                                verbosity=0, **ekw)
                        else:
                            r2 = make_runner(epoch)
                            ds = r2.run_combos({d: sel[d] for d in dims},
                                               verbosity=0)
                            actor.add_ds(ds, overwrite=pol, sync=sync, **ekw)
                except xr.MergeError as e:
                    raised = e
                if not ok:
                    stats["conflicts"] += 1
                    require(raised is not None, "conflict-not-refused",
                            f"{tag}: conflicting data (epoch {epoch} over "
                            f"{ {l: mem.data[l] for l in new if l in mem.data} })"
                            f" merged silently with overwrite=None")
                    # nothing changes, neither in memory nor on disk
                    if by_rival:
                        mem = mem_before if not stale else mem
                else:
                    require(raised is None, "spurious-conflict",
                            f"{tag}: {raised!r:.300}")
                    if op.get("scribble"):
                        # the user goes on working with the dataset that was
                        # just harvested (their own, or the runner's last_ds)
                        # and changes it in place: what was harvested is not
                        # affected
                        tgt = ds if o == "add_ds" else actor.runner.last_ds
                        for nm_ in (list(tgt.data_vars) if tgt is not None
                                    else ()):
                            arr_ = tgt[nm_].values
                            if arr_.flags.writeable and arr_.dtype.kind == "f":
                                arr_[...] = -777.25
                        stats["scribble"] += 1
                    if sync:
                        base.add_coords(new_coords)
                        mem = base
                        disk = mem.clone()
                        pending = False
                        if by_rival:
                            with under_test("rival full_ds"):
                                rfull = rival[0].full_ds
                            check_against(rfull, disk, c0, nvars,
                                          f"{tag}: rival full_ds")
                            stale = True
                            stats["rival"] += 1
                        else:
                            stale = False
                    else:
                        base.add_coords(new_coords)
                        mem = base
                        pending = True
            elif o in ("expand", "drop", "flush") and stale:
                # the user refreshes the out-of-date session first
                with under_test("load_full_ds (refresh)"):
                    h.load_full_ds(**ekw)
                mem = disk.clone()
                stale = False
                continue
            elif o == "expand":
                if expanded[0] or not mem.exists:
                    continue
                with under_test(tag):
                    if per_call and h._full_ds is None:
                        h.load_full_ds(engine=engine)
                    h.expand_dims("c", c0, **ekw)
                expanded[0] = True
                for m in (mem,):
                    m.dims = ["a", "b", "c"]
                    m.coords["c"] = {c0}
                    m.data = {loc + (c0,): e for loc, e in m.data.items()}
                # the code puts the new dimension first: order is free
                disk = mem.clone()
                pending = False
            elif o == "drop":
                if not mem.exists:
                    continue
                d = mem.dims[op["dim"] % len(mem.dims)]
                labs = sorted(mem.coords[d])
                if len(labs) < 2:
                    continue
                lab = labs[op["idx"] % len(labs)]
                with under_test(tag):
                    if per_call and h._full_ds is None:
                        h.load_full_ds(engine=engine)
                    h.drop_sel({d: [lab]}, **ekw)
                i = mem.dims.index(d)
                mem.coords[d].discard(lab)
                mem.data = {loc: e for loc, e in mem.data.items()
                            if loc[i] != lab}
                disk = mem.clone()
                pending = False
            elif o == "flush":
                if not mem.exists:
                    continue
                with under_test(tag):
                    h.save_full_ds(**ekw)
                disk = mem.clone()
                pending = False
            elif o == "session":
                if pending:
                    with under_test("save_full_ds before new session"):
                        h.save_full_ds(**ekw)
                    disk = mem.clone()
                    pending = False
                h = new_session()
                mem = disk.clone()
                stale = False
                stats["sessions"] += 1
            verify(tag)
        # finally: a brand new session sees exactly the disk half
        if disk.exists:
            h2 = new_session()
            with under_test("final new session"):
                if per_call:
                    h2.load_full_ds(engine=engine)
                f2 = h2.full_ds
            check_against(f2, disk, c0, nvars, "final new session: full_ds")
    nsteps = len(case["ops"])
    nt = (nsteps >= 3 and stats["overlaps"] > 0) or stats["sessions"] > 0 \
        or stats["rival"] > 0
    return {"nontrivial": nt,
            "classes": [f"engine={engine}",
                        "bare-name" if "." not in case["dname"] else
                        "name-with-ext", f"nvars={nvars}",
                        "expanded" if expanded[0] else "not-expanded",
                        "conflict" if stats["conflicts"] else "no-conflict",
                        "new-session" if stats["sessions"] else "one-session",
                        "rival-session" if stats["rival"] else "no-rival",
                        "scribbled" if stats["scribble"] else "no-scribble",
                        "ctor-full_ds" if case.get("init_full_ds")
                        else "ctor-plain"],
            "notes": {"steps": nsteps, "expected_conflicts":
                      stats["conflicts"],
                      "excluded_pending_sync_flushes": stats["auto_flush"]}}


# ------------------------------------------------------------ save_merge_ds

def run_merge(case):
    x = xyz()
    import xarray as xr
    nvars = case["nvars"]
    c0 = C_VALS[0]
    engine = case["engine"]
    with core.scratch("xv-c05m-") as root:
        fname = os.path.join(root, case["dname"])
        model = Model()
        conflicts = 0
        for k, op in enumerate(case["ops"]):
            sel = {d: sorted({UNIVERSE[d][i % len(UNIVERSE[d])]
                              for i in op["sel"][d]})
                   for d in ("a", "b")}
            fn = functools.partial(harvest_fn, nvars=nvars)
            r = x.Runner(fn, ("v0", "v1")[:nvars] if nvars > 1 else "v0",
                         var_dims={"v1": "t"} if nvars > 1 else None,
                         var_coords={"t": T_COORD} if nvars > 1 else None,
                         constants={"c": c0},
                         resources={"epoch": op["epoch"]})
            ds = r.run_combos(sel, verbosity=0)
            locs = list(itertools.product(sel["a"], sel["b"]))
            new = {loc: op["epoch"] for loc in locs}
            base = model.clone()
            ok = base.merge(new, op["overwrite"])
            raised = None
            try:
                with under_test(f"save_merge_ds step {k}",
                                expect=(xr.MergeError,)):
                    x.save_merge_ds(ds, fname, overwrite=op["overwrite"],
                                    engine=engine)
            except xr.MergeError as e:
                raised = e
            if not ok:
                conflicts += 1
                require(raised is not None, "conflict-not-refused",
                        f"step {k}: conflicting data merged silently")
            else:
                require(raised is None, "spurious-conflict",
                        f"step {k}: {raised!r:.300}")
                base.add_coords({d: set(v) for d, v in sel.items()})
                model = base
            if model.exists:
                with under_test("load_ds"):
                    got = x.load_ds(fname, engine=engine)
                check_against(got, model, c0, nvars,
                              f"after save_merge_ds step {k}")
    return {"nontrivial": len(case["ops"]) >= 2,
            "classes": [f"engine={engine}", "merge-file",
                        "conflict" if conflicts else "no-conflict"]}


# ------------------------------------- date labels and string-valued outputs

DATES = ["2021-03-01", "2021-03-02", "2021-04-15", "2022-01-01"]


def date_label(i, spelling):
    import datetime
    s = DATES[i % len(DATES)]
    if spelling == "datetime":
        return datetime.datetime.fromisoformat(s)
    if spelling == "np_s":
        return np.datetime64(s, "s")
    if spelling == "np_D":
        return np.datetime64(s)
    return np.datetime64(s, "ns")


def dated_fn(d, b, epoch=0):
    day = int(np.datetime64(d, "D").astype(int))
    n = models.kw_number({"day": day, "b": b}, salt=5)
    # a number, and a text that is EMPTY at some settings
    return float(n % 4096) + epoch, ("" if n % 3 == 0 else "v%d" % (n % 97))


def run_dated(case):
    """Harvests over a date-valued argument (given as datetime objects or
    numpy dates of several units) and with a string-valued output."""
    x = xyz()
    import xarray as xr
    engine = case["engine"]
    sp = case["spelling"]
    bs = ["p", "q"][:case["nb"]]
    model = {}
    with core.scratch("xv-c05d-") as root:
        dname = os.path.join(root, case["dname"])

        def session(epoch):
            r = x.Runner(dated_fn, ("num", "txt"), resources={"epoch": epoch})
            return x.Harvester(r, data_name=dname, engine=engine)
        h = session(0)
        conflicts = 0
        for k, op in enumerate(case["ops"]):
            if op.get("new_session"):
                h = session(0)
            idx = sorted({i % len(DATES) for i in op["dates"]})
            labels = [date_label(i, sp) for i in idx]
            h.runner.resources = {"epoch": op["epoch"]}
            new = {(i, b): op["epoch"] for i in idx for b in bs}
            pol = op["overwrite"]
            clash = any(model.get(kk, e) != e for kk, e in new.items())
            raised = None
            try:
                with under_test(f"step {k}", expect=(xr.MergeError,)):
                    h.harvest_combos({"d": labels, "b": bs}, overwrite=pol,
                                     verbosity=0)
            except xr.MergeError as e:
                raised = e
            if pol is None and clash:
                conflicts += 1
                require(raised is not None, "conflict-not-refused",
                        f"step {k}: dates {[DATES[i] for i in idx]} given as "
                        f"{sp}: conflicting values (epoch {op['epoch']}) "
                        f"merged silently under the default policy")
            else:
                require(raised is None, "spurious-conflict",
                        f"step {k}: {raised!r:.300}")
                for kk, e in new.items():
                    if kk not in model or pol is True or pol is None:
                        model[kk] = e
            # ---- memory and disk, by label
            with under_test("full_ds / load_ds"):
                views = (("full_ds", h.full_ds),
                         ("load_ds", x.load_ds(dname, engine=engine)))
            for what, ds in views:
                for (i, b), e in model.items():
                    lab = np.datetime64(DATES[i], "ns")
                    try:
                        sel = ds.sel(d=lab, b=b)
                    except KeyError:
                        core.violated(
                            "harvested-point-lost",
                            f"step {k}: {what} has no entry for "
                            f"({DATES[i]}, {b}) although it was harvested; "
                            f"d = {ds['d'].values.tolist() if 'd' in ds else '-'}")
                    wnum, wtxt = dated_fn(DATES[i], b, e)
                    gnum = float(sel["num"].values)
                    gtxt = sel["txt"].values.item()
                    require(gnum == wnum, "harvested-value",
                            f"step {k}: {what} num at ({DATES[i]}, {b}) = "
                            f"{gnum}, harvested {wnum}")
                    require(isinstance(gtxt, str) and gtxt == wtxt,
                            "harvested-text",
                            f"step {k}: {what} txt at ({DATES[i]}, {b}) = "
                            f"{gtxt!r}, harvested {wtxt!r}")
    return {"nontrivial": len(case["ops"]) >= 2,
            "classes": ["date-labels", f"spelling={sp}", f"engine={engine}",
                        "conflict" if conflicts else "no-conflict"]}


@st.composite
def dated_strategy(draw):
    op = st.fixed_dictionaries({
        # (every harvest covers the full b range and whole dates: a text
        # variable with holes cannot be stored - noted in DESIGN section 7)
        "dates": st.lists(st.integers(0, 3), min_size=1, max_size=3),
        "epoch": st.sampled_from([0, 0, 1]),
        "overwrite": st.sampled_from([None, None, True, False]),
        "new_session": st.booleans()})
    return {"ops": draw(st.lists(op, min_size=1, max_size=5)),
            "nb": draw(st.integers(1, 2)),
            "spelling": draw(st.sampled_from(["datetime", "np_s", "np_D",
                                              "np_ns"])),
            "engine": draw(st.sampled_from(["h5netcdf", "h5netcdf",
                                            "joblib"])),
            "dname": draw(st.sampled_from(["dated.h5", "dated"]))}


# ---------------------------------------------------------------- strategies

idx = st.integers(0, 11)
sel3 = st.fixed_dictionaries({
    "a": st.lists(idx, min_size=1, max_size=3),
    "b": st.lists(idx, min_size=1, max_size=2),
    "c": st.lists(idx, min_size=1, max_size=2)})
policy = st.sampled_from([None, None, True, False])
epochs = st.sampled_from([0, 0, 1, 2])
syncs = st.sampled_from([True, True, True, False])
scrib = st.sampled_from([False, False, True])


@st.composite
def strategy(draw):
    harvest = st.one_of(
        st.fixed_dictionaries({"op": st.just("combos"), "sel": sel3,
                               "epoch": epochs, "overwrite": policy,
                               "sync": syncs, "reverse": st.booleans(),
                               "scribble": scrib,
                               "rival": st.sampled_from(
                                   [False, False, False, True])}),
        st.fixed_dictionaries({"op": st.just("cases"),
                               "locs": st.lists(st.tuples(idx, idx, idx),
                                                min_size=1, max_size=4),
                               "as_dicts": st.sampled_from([0, 0, 1, 2]),
                               "epoch": epochs, "overwrite": policy,
                               "sync": syncs, "scribble": scrib}),
        st.fixed_dictionaries({"op": st.just("add_ds"), "sel": sel3,
                               "epoch": epochs, "overwrite": policy,
                               "sync": syncs, "scribble": scrib}),
    )
    other = st.one_of(
        st.just({"op": "session"}), st.just({"op": "session"}),
        st.just({"op": "expand"}), st.just({"op": "flush"}),
        st.fixed_dictionaries({"op": st.just("drop"), "dim": idx,
                               "idx": idx}))
    ops = draw(st.lists(st.one_of(harvest, harvest, other), min_size=1,
                        max_size=8))
    return {"ops": ops, "nvars": draw(st.sampled_from([1, 2])),
            "c0": draw(st.integers(0, 2)),
            "engine": draw(st.sampled_from(["h5netcdf", "h5netcdf",
                                            "joblib"])),
            "dname": draw(st.sampled_from(["full.h5", "full", "results",
                                           "full.dmp", "d.nc"])),
            "engine_per_call": draw(st.sampled_from([False, False, True])),
            "init_full_ds": draw(st.none() | st.none() | st.fixed_dictionaries(
                {"a": st.lists(idx, min_size=1, max_size=3),
                 "b": st.lists(idx, min_size=1, max_size=2)}))}


@st.composite
def merge_strategy(draw):
    step = st.fixed_dictionaries({"sel": sel3, "epoch": epochs,
                                  "overwrite": policy})
    return {"ops": draw(st.lists(step, min_size=1, max_size=6)),
            "nvars": draw(st.sampled_from([1, 2])),
            "engine": draw(st.sampled_from(["h5netcdf", "joblib"])),
            "dname": draw(st.sampled_from(["m.h5", "m", "merged.dmp"]))}


# ------------------------------ sessions whose function returns more outputs

def vars_value(j, a, b):
    return float(models.kw_number({"a": a, "b": b}, salt=70 + j) % 4096)


def vars_fn(a, b, nv=1):
    out = tuple(vars_value(j, a, b) for j in range(nv))
    return out if nv > 1 else out[0]


def run_vars(case):
    """The function behind a data name grows a second (third) output between
    sessions.  Every value is a pure function of its location, so nothing ever
    conflicts: after each step every variable holds its value at every
    location it was ever harvested at (under all three policies: a location
    that has no value for a variable yet is a hole, which every policy
    fills), and memory equals disk."""
    x = xyz()
    engine = case["engine"]
    with core.scratch("xv-c05v-") as root:
        fname = os.path.join(root, case["dname"])
        has = {}                      # variable index -> set of (a, b)
        coords = {"a": set(), "b": set()}
        h = None
        for k, op in enumerate(case["ops"]):
            nv = op["nv"]
            sel = {d: sorted({UNIVERSE[d][i % len(UNIVERSE[d])]
                              for i in op["sel"][d]}, key=str)
                   for d in ("a", "b")}
            names = ("u", "w", "z")[:nv]
            if h is None or op["new_session"] or len(h.runner.var_names) != nv:
                r = x.Runner(functools.partial(vars_fn, nv=nv),
                             names if nv > 1 else "u")
                h = x.Harvester(r, data_name=fname, engine=engine)
            locs = list(itertools.product(sel["a"], sel["b"]))
            with under_test(f"step {k} ({op['how']}, {nv} outputs, "
                            f"overwrite={op['overwrite']})"):
                if op["how"] == "combos":
                    h.harvest_combos(sel, overwrite=op["overwrite"],
                                     verbosity=0)
                else:
                    h.harvest_cases(locs, fn_args=("a", "b"),
                                    overwrite=op["overwrite"], verbosity=0)
            for j in range(nv):
                has.setdefault(j, set()).update(locs)
            for d in ("a", "b"):
                coords[d] |= set(sel[d])
            with under_test("read back"):
                mem = h.full_ds
                disk = x.load_ds(fname, engine=engine)
            for tag, ds in (("memory", mem), ("disk", disk)):
                for j, locs_j in has.items():
                    nm = ("u", "w", "z")[j]
                    require(nm in ds.data_vars, "variable-missing",
                            f"step {k}, {tag}: no variable {nm}")
                    for (a, b) in itertools.product(sorted(coords["a"],
                                                           key=str),
                                                    sorted(coords["b"])):
                        try:
                            got = float(ds[nm].sel(a=a, b=b).values)
                        except KeyError:
                            core.violated(
                                "coordinate-labels",
                                f"step {k}, {tag}: the labels a={a!r}, "
                                f"b={b!r} harvested before are not in the "
                                f"dataset: a={ds['a'].values.tolist()}, "
                                f"b={ds['b'].values.tolist()}")
                        if (a, b) in locs_j:
                            require(got == vars_value(j, a, b),
                                    "harvested-value",
                                    f"step {k}, {tag}: {nm} at a={a!r}, "
                                    f"b={b!r} is {got}, harvested "
                                    f"{vars_value(j, a, b)}")
                        else:
                            require(math.isnan(got), "value-from-nowhere",
                                    f"step {k}, {tag}: {nm} at a={a!r}, "
                                    f"b={b!r} is {got}, never harvested")
    grew = len({op["nv"] for op in case["ops"]}) > 1
    return {"nontrivial": grew,
            "classes": ["more-variables", f"engine={engine}",
                        "outputs-change" if grew else "outputs-fixed"]}


@st.composite
def vars_strategy(draw):
    sel2 = st.fixed_dictionaries({
        "a": st.lists(st.integers(0, 3), min_size=1, max_size=3),
        "b": st.lists(idx, min_size=1, max_size=2)})
    step = st.fixed_dictionaries({
        "sel": sel2, "nv": st.sampled_from([1, 2, 2, 3]),
        "overwrite": policy, "how": st.sampled_from(["combos", "cases"]),
        "new_session": st.booleans()})
    return {"ops": draw(st.lists(step, min_size=2, max_size=5)),
            "engine": draw(st.sampled_from(["h5netcdf", "joblib"])),
            "dname": draw(st.sampled_from(["v.h5", "v"]))}



PHASES = [
    Phase("histories", run_case, strategy=strategy,
          examples={"quick": 1200, "thorough": 40000}),
    Phase("save_merge_ds", run_merge, strategy=merge_strategy,
          examples={"quick": 400, "thorough": 12000}),
    Phase("date-labels", run_dated, strategy=dated_strategy,
          examples={"quick": 300, "thorough": 8000}),
    Phase("more-variables", run_vars, strategy=vars_strategy,
          examples={"quick": 300, "thorough": 8000}),
]
