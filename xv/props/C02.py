"""C02 - sparse cases run only what was asked and leave every other slot
missing."""
import functools
import itertools
import collections

from hypothesis import strategies as st

from .. import core, gens, models
from ..core import Phase, under_test, require

ID = "C02"
LEVEL = "exploration"
RULE = (
    "cases: 1-8 distinct cases over 1-4 case arguments with uniform keys "
    "(dict spelling through combo_runner(cases=...) with the key order "
    "rotated per dict, tuple spelling through case_runner(fn_args=...), or "
    "written to a crop with sow_cases, grown and reaped), one "
    "sortable value family per argument, optional sub-grid on 0-2 other "
    "arguments, result kind number/bool/str/tuple/nested list/ndarray/dict/"
    "Dataset, shuffle on/off, flat/nested, split; plus the negative case of "
    "an argument in both cases and combos (through combo_runner, case_runner "
    "in both spellings and combo_runner_to_ds).  Oracle: call log == exactly the "
    "requested settings once each; coordinates = sorted union per case "
    "argument then the grid values; requested cells hold the recorded result, "
    "every other cell satisfies the all-missing placeholder predicate (NaN, "
    "None for bool/str, same length/shape as a real result).  Phase "
    "mixed-types: one case argument takes numbers and strings (axis order "
    "unspecified there): call log, number of slots, and the multiset of "
    "non-placeholder slots == the requested settings' results.  Phase "
    "runner-history: 2-4 run_cases / harvest_cases calls on ONE Runner / "
    "Harvester, some with a per-call sub-grid: each call runs exactly its own "
    "settings and its dataset has exactly its own dimensions.  Non-trivial = "
    ">=2 case arguments and the union grid strictly larger than the case set."
)
ASSUMPTIONS = [
    "all case dicts have the same keys; values of one argument are mutually "
    "sortable (the code falls back to an arbitrary order otherwise)",
    "for bool/str elements inside tuple results either None or NaN is "
    "accepted as placeholder (docstring and code differ; the property only "
    "says 'missing')",
]


def xyz():
    return core.import_target()


def run_case(case):
    x = xyz()
    cargs, cases = case["args"], case["cases"]
    sub = case.get("subgrid", [])
    consts = case.get("constants", {})
    kind = case["kind"]
    flat, split = case.get("flat", False), case.get("split", False)
    shuffle = case.get("shuffle", False)
    models.LOG.clear()
    fn = functools.partial(models.record_fn, _xv=(kind, None))
    combos = {nm: list(v) for nm, v in sub} or None
    opts = dict(constants=dict(consts) or None, split=split, shuffle=shuffle,
                verbosity=0)

    if case.get("clash"):
        # negative: an argument both in cases and in combos
        bad = dict(combos or {})
        bad[cargs[case["clash"] % len(cargs)]] = [1, 2]
        via = case.get("clash_via", "combo_runner")
        try:
            with under_test(f"{via}(clash)", expect=(ValueError,)):
                if via == "combo_runner":
                    x.combo_runner(fn, bad, cases=[dict(zip(cargs, c))
                                                  for c in cases], **opts)
                elif via == "case_runner_dict":
                    x.case_runner(fn, None, [dict(zip(cargs, c))
                                             for c in cases], combos=bad,
                                  **opts)
                elif via == "case_runner_tuple":
                    x.case_runner(fn, tuple(cargs), [tuple(c) for c in cases],
                                  combos=bad, **opts)
                elif via == "combo_runner_to_ds":
                    x.combo_runner_to_ds(fn, bad, "out",
                                         cases=[dict(zip(cargs, c))
                                                for c in cases],
                                         constants=dict(consts) or None,
                                         verbosity=0)
                elif via in ("runner_run_combos", "runner_run_cases",
                             "harvester_combos"):
                    r_ = x.Runner(fn, "out", fn_args=tuple(cargs),
                                  constants=dict(consts) or None)
                    dcs_ = [dict(zip(cargs, c)) for c in cases]
                    if via == "runner_run_combos":
                        r_.run_combos(bad, cases=dcs_, verbosity=0)
                    elif via == "runner_run_cases":
                        r_.run_cases(dcs_, combos=tuple(
                            (k_, list(v_)) for k_, v_ in bad.items()),
                            verbosity=0)
                    else:
                        x.Harvester(r_).harvest_combos(bad, cases=dcs_,
                                                       verbosity=0)
                else:
                    with core.scratch("xv-c02-") as tmp_:
                        crop_ = x.Crop(fn=fn, name="clash", parent_dir=tmp_)
                        if via == "crop_sow_combos":
                            crop_.sow_combos(bad, cases=[
                                dict(zip(cargs, c)) for c in cases],
                                verbosity=0)
                        else:
                            crop_.sow_cases(tuple(cargs),
                                            [tuple(c) for c in cases],
                                            combos=bad, verbosity=0)
        except ValueError:
            require(not models.LOG, "clash-rejected-after-calls",
                    f"{len(models.LOG)} calls before rejection")
            return {"classes": ["clash-rejected"], "nontrivial": True}
        core.violated("clash-not-rejected",
                      f"argument in both cases and combos accepted: {bad}")

    if case["spelling"] == "dict":
        dcs = []
        for i, c in enumerate(cases):
            items = list(zip(cargs, c))
            r = (i + case.get('rot', 0)) % len(items)
            dcs.append(dict(items[r:] + items[:r]))   # rotated key order
        # NB: the first dict's key order defines the argument order
        order = list(dcs[0].keys())
        with under_test("combo_runner(cases=)"):
            got = x.combo_runner(fn, combos, cases=dcs, flat=flat, **opts)
    elif case["spelling"] == "crop":
        # the same request written to disk in batches, grown and reaped
        order = list(cargs)
        tup = [tuple(c) for c in cases]
        with core.scratch("xv-c02c-") as tmp_:
            with under_test("crop: sow_cases / grow / reap"):
                crop_ = x.Crop(fn=fn, name="c2", parent_dir=tmp_,
                               batchsize=case.get("crop_bs", 2))
                crop_.sow_cases(tuple(cargs), tup, combos=combos,
                                constants=dict(consts) or None, verbosity=0)
                crop_.grow_missing(verbosity=0)
                got = crop_.reap()
        flat, split = False, False
    else:
        order = list(cargs)
        tup = [tuple(c) for c in cases]
        if len(cargs) == 1 and case.get("bare_single"):
            tup = [c[0] for c in cases]
        with under_test("case_runner"):
            got = x.case_runner(fn, tuple(cargs) if len(cargs) > 1 or
                                not case.get("bare_single") else cargs[0],
                                tup, combos=combos, **opts)
        flat = True       # case_runner always returns the flat list

    sub_names = [nm for nm, _ in sub]
    sub_vals = [v for _, v in sub]

    # ---- call log: exactly the requested settings
    exp = []
    for c in cases:
        for sv in itertools.product(*sub_vals):
            kw = dict(zip(cargs, c))
            kw.update(zip(sub_names, sv))
            kw.update(consts)
            exp.append(models.canon_kw(kw))
    calls = models.read_log(None)
    if collections.Counter(calls) != collections.Counter(exp):
        ce, cg = collections.Counter(exp), collections.Counter(calls)
        core.violated("call-log",
                      f"{len(calls)} calls for {len(exp)} settings; missing "
                      f"{list((ce - cg).elements())[:3]}; unexpected "
                      f"{list((cg - ce).elements())[:3]}")

    # ---- result
    def res_of(loc):           # loc in `order` + sub_names
        kw = dict(zip(order + sub_names, loc))
        kw.update(consts)
        return models.result_of(kind, kw)

    idx = [cargs.index(a) for a in order]
    req = [tuple(c[i] for i in idx) for c in cases]
    example = res_of(req[0] + tuple(v[0] for v in sub_vals))
    nout = len(example) if split else None

    if flat:
        want = [res_of(r + sv) for r in req
                for sv in itertools.product(*sub_vals)]
        outs = (got,) if not split else got
        for k in range(nout or 1):
            w = [v[k] for v in want] if split else want
            if not models.deep_eq(tuple(outs[k]), tuple(w)):
                core.violated("flat-result-mismatch",
                              f"output {k}: got {outs[k]!r:.300} expected "
                              f"{w!r:.300}")
        union_size = None
    else:
        coords = [sorted(set(r[i] for r in req)) for i in range(len(order))]
        allv = coords + sub_vals
        reqset = set(tuple(models.plain(v) for v in r) for r in req)
        outs = (got,) if not split else got
        for k in range(nout or 1):
            def cell(loc, k=k):
                head = tuple(models.plain(v) for v in loc[:len(order)])
                if head in reqset:
                    r = res_of(loc)
                    return ("v", r[k] if split else r)
                return ("m", None)
            ex_k = example[k] if split else example
            _compare_nested(outs[k], allv, cell, ex_k, ())
        union_size = 1
        for c in coords:
            union_size *= len(c)

    nt = len(cargs) >= 2 and (union_size is not None
                              and union_size > len(cases))
    return {"nontrivial": nt,
            "classes": [f"spelling={case['spelling']}", f"kind={kind}",
                        f"flat={flat}", f"split={split}",
                        f"shuffle={bool(shuffle)}", f"subgrid={len(sub)}",
                        f"case_args={len(cargs)}",
                        "has-unrequested-slot" if (union_size or 0) >
                        len(cases) else "dense"]}


def _compare_nested(got, allv, cell, example, prefix):
    if not allv:
        tag, want = cell(prefix)
        if tag == "v":
            require(models.deep_eq(got, want), "requested-cell-wrong",
                    lambda: f"at {prefix}: got {got!r:.200}, expected "
                            f"{want!r:.200}")
        else:
            prob = models.placeholder_problem(got, example)
            require(prob is None, "unrequested-cell-not-missing",
                    lambda: f"at {prefix}: {prob}; cell={got!r:.200}")
        return
    first, *rest = allv
    require(isinstance(got, tuple) and len(got) == len(first),
            "grid-shape", lambda: f"at {prefix}: expected {len(first)} "
                                  f"entries, got {got!r:.200}")
    for g, v in zip(got, first):
        _compare_nested(g, rest, cell, example, prefix + (v,))


# ----------------------------------------------------------------- strategy

@st.composite
def strategy(draw):
    cs = draw(gens.case_set(1, 4, 8))
    if len(cs["cases"]) >= 2 and draw(st.sampled_from([False, False, True])):
        # two values of one (numeric) argument that differ in the last bit:
        # they are two coordinates
        for j_ in range(len(cs["args"])):
            col = [c[j_] for c in cs["cases"]]
            if all(isinstance(v, (int, float)) and abs(v - 0.3) > 1e-6
                   for v in col):
                cs["cases"][0][j_] = 0.3
                cs["cases"][1][j_] = 0.30000000000000004
                break
    rest = [n for n in gens.ARG_NAMES if n not in cs["args"]]
    nsub = draw(st.sampled_from([0, 0, 1, 2]))
    sub_names = draw(st.lists(st.sampled_from(rest), min_size=nsub,
                              max_size=nsub, unique=True))
    sub = [[nm, draw(gens.arg_values(1, 3))] for nm in sub_names]
    consts = draw(gens.constants())
    for nm in cs["args"] + sub_names:
        consts.pop(nm, None)
    kind = draw(st.sampled_from(
        ["tuple2", "float", "bool", "str", "int", "tuple3", "tuple_arr",
         "nested", "ndarray", "dict", "dataset", "tuple_2d", "ndarray2d",
         "tuple_intarr", "intarr2d", "tuple_strarr"]))
    spelling = draw(st.sampled_from(["dict", "dict", "tuple", "crop"]))
    split = draw(st.booleans()) if kind.startswith("tuple") else False
    case = {"args": cs["args"], "cases": cs["cases"], "subgrid": sub,
            "constants": consts, "kind": kind, "spelling": spelling,
            "split": split,
            "flat": draw(st.sampled_from([False, False, True])),
            "shuffle": draw(st.sampled_from([False, False, True, 7, 1234])),
            "bare_single": draw(st.booleans()),
            "crop_bs": draw(st.integers(1, 4)),
            "rot": draw(st.integers(0, 3))}
    if draw(st.sampled_from([False] * 19 + [True])):
        case["clash"] = draw(st.integers(1, 4))
        case["clash_via"] = draw(st.sampled_from(
            ["combo_runner", "case_runner_dict", "case_runner_tuple",
             "combo_runner_to_ds", "runner_run_combos", "runner_run_cases",
             "harvester_combos", "crop_sow_combos", "crop_sow_cases"]))
        case["spelling"] = "dict"
    return case


# ------------------------------------------------- mixed value families

def _leaves(obj, depth):
    if depth == 0:
        return [obj]
    out = []
    for o in obj:
        out += _leaves(o, depth - 1)
    return out


def run_mixed(case):
    """One case argument takes numbers AND strings (e.g. level in {2, 4,
    'auto'}).  Such values cannot be sorted, so the ORDER of that axis is
    unspecified; what the property still fixes - and what is checked - is
    that exactly the requested settings are run, that the nested result has
    one slot per element of the union grid, and that the slots hold exactly
    the requested settings' results (as a multiset) and placeholders
    elsewhere."""
    x = xyz()
    cargs, cases = case["args"], case["cases"]
    models.LOG.clear()
    fn = functools.partial(models.record_fn, _xv=("int", None))
    dcs = [dict(zip(cargs, c)) for c in cases]
    with under_test("combo_runner(cases= mixed value types)"):
        if case["via"] == "combo_runner":
            got = x.combo_runner(fn, None, cases=dcs, verbosity=0)
        else:
            got = x.combo_runner(fn, None, cases=dcs, verbosity=0,
                                 shuffle=case.get("shuffle", False))
    exp = [models.canon_kw(dict(zip(cargs, c))) for c in cases]
    calls = models.read_log(None)
    require(collections.Counter(calls) == collections.Counter(exp),
            "call-log", lambda: f"calls {calls!r:.300} vs requested "
                                f"{exp!r:.300}")
    sizes = [len({(type(c[i]).__name__, c[i]) for c in cases})
             for i in range(len(cargs))]
    try:
        leaves = _leaves(got, len(cargs))
    except TypeError:
        core.violated("grid-shape", f"result is not {len(cargs)} levels "
                                    f"deep: {got!r:.300}")
    total = 1
    for s_ in sizes:
        total *= s_
    require(len(leaves) == total, "grid-shape",
            f"{len(leaves)} slots for a union grid of {sizes}")
    want = collections.Counter(
        models.result_of("int", dict(zip(cargs, c))) for c in cases)
    real = [l for l in leaves
            if models.placeholder_problem(l, 0) is not None]
    require(collections.Counter(real) == want, "requested-cell-wrong",
            lambda: f"the slots hold the results "
                    f"{sorted(map(repr, real))!r:.300}; the requested "
                    f"settings give {sorted(map(repr, want.elements()))!r:.300}")
    return {"nontrivial": len(cargs) >= 2 and total > len(cases),
            "classes": ["mixed-value-types", f"case_args={len(cargs)}"]}


@st.composite
def mixed_strategy(draw):
    n = draw(st.integers(1, 3))
    args = draw(st.lists(st.sampled_from(gens.ARG_NAMES), min_size=n,
                         max_size=n, unique=True))
    pools = [[1, 2, 4, "auto", "x", 2.5]] + \
        [draw(st.sampled_from([[0, 1, 2], ["p", "q"], [3, "none", 7]]))
         for _ in range(n - 1)]
    cases = draw(st.lists(st.tuples(*[st.sampled_from(p) for p in pools]),
                          min_size=2, max_size=6, unique=True))
    return {"args": args, "cases": [list(c) for c in cases],
            "via": draw(st.sampled_from(["combo_runner", "shuffled"])),
            "shuffle": draw(st.sampled_from([False, True, 5]))}


# ------------------------------------------- a large and mostly empty grid

def run_large(case):
    """Few cases on a union grid of more than 2**16 slots (given in no
    particular order): every requested slot holds its result, the number of
    non-placeholder slots equals the number of cases, the shape is the union
    grid's."""
    x = xyz()
    nv = case["nv"]
    cargs = ["a", "b", "c"]
    cases = [list(c) for c in case["cases"]]
    models.LOG.clear()
    fn = functools.partial(models.record_fn, _xv=("int", None))
    with under_test("combo_runner(cases=) on a large sparse grid"):
        got = x.combo_runner(fn, None, cases=[dict(zip(cargs, c))
                                              for c in cases], verbosity=0)
    exp = [models.canon_kw(dict(zip(cargs, c))) for c in cases]
    calls = models.read_log(None)
    require(collections.Counter(calls) == collections.Counter(exp),
            "call-log", f"{len(calls)} calls for {len(exp)} cases")
    coords = [sorted({c[i] for c in cases}) for i in range(3)]
    require(len(got) == len(coords[0]) and
            all(len(p) == len(coords[1]) for p in got) and
            all(len(r) == len(coords[2]) for p in got for r in p),
            "grid-shape", f"union grid {[len(c) for c in coords]}")
    for c in cases:
        i, j, k = (coords[d].index(c[d]) for d in range(3))
        want = models.result_of("int", dict(zip(cargs, c)))
        require(models.deep_eq(got[i][j][k], want), "requested-cell-wrong",
                lambda: f"at {c}: {got[i][j][k]!r}, the function returned "
                        f"{want!r}")
    filled = sum(1 for p in got for r in p for v in r
                 if models.placeholder_problem(v, 0) is not None)
    require(filled == len(cases), "unrequested-cell-not-missing",
            f"{filled} slots hold data for {len(cases)} cases")
    total = len(coords[0]) * len(coords[1]) * len(coords[2])
    return {"nontrivial": total > 2 ** 16,
            "classes": ["large-sparse-grid"]}


@st.composite
def large_strategy(draw):
    nv = draw(st.sampled_from([41, 43]))
    # a diagonal scan, then a few cases that share a prefix with an earlier
    # one without being adjacent to it
    cases = [[i, i, i] for i in range(nv)]
    for _ in range(draw(st.integers(1, 5))):
        i = draw(st.integers(0, nv - 1))
        j = draw(st.integers(0, nv - 1))
        k = draw(st.integers(0, nv - 1))
        c = [i, draw(st.sampled_from([i, j])), k]
        if c not in cases:
            cases.append(c)
    if draw(st.booleans()):
        cases = draw(st.permutations(cases))
    return {"nv": nv, "cases": [list(c) for c in cases]}


# ------------------------------------------------ ONE case as a bare mapping

def run_bare(case):
    """``cases`` given as one bare dict (not wrapped in a list) is one case,
    whatever its values look like - equal-length tuples included."""
    x = xyz()
    kw = {a: (tuple(v) if isinstance(v, list) else v)
          for a, v in case["kw"].items()}
    models.LOG.clear()
    fn = functools.partial(models.record_fn, _xv=("int", None))
    with under_test("combo_runner(cases=<one dict>)"):
        got = x.combo_runner(fn, None, cases=dict(kw), flat=True,
                             verbosity=0)
    calls = models.read_log(None)
    require(calls == [models.canon_kw(kw)], "call-log",
            f"one case {kw!r} requested; the function was called with "
            f"{calls!r:.300}")
    want = models.result_of("int", kw)
    flat_ = got
    while isinstance(flat_, (tuple, list)) and len(flat_) == 1:
        flat_ = flat_[0]
    require(models.deep_eq(flat_, want), "requested-cell-wrong",
            f"{got!r:.200} vs {want!r}")
    if case.get("via_runner"):
        # the same spelling through a Runner, next to a sub-grid
        models.LOG.clear()
        r = x.Runner(fn, "out")
        with under_test("Runner.run_combos(grid, cases=<one dict>)"):
            ds = r.run_combos({"zz": [1, 2]}, cases=dict(kw), verbosity=0)
        calls = sorted(models.read_log(None))
        wantc = sorted(models.canon_kw(dict(kw, zz=z)) for z in (1, 2))
        require(calls == wantc, "call-log",
                f"one case {kw!r} x zz=[1, 2] requested; the function was "
                f"called with {calls!r:.300}")
        for z in (1, 2):
            require(int(ds["out"].sel(zz=z).values.ravel()[0]) ==
                    models.result_of("int", dict(kw, zz=z)),
                    "requested-cell-wrong", f"zz={z}: {ds['out'].values!r}")
    return {"nontrivial": any(isinstance(v, tuple) for v in kw.values()),
            "classes": ["bare-dict-case",
                        "via-runner" if case.get("via_runner") else
                        "combo_runner-only"]}


@st.composite
def bare_strategy(draw):
    n = draw(st.integers(1, 3))
    names = draw(st.lists(st.sampled_from(gens.ARG_NAMES), min_size=n,
                          max_size=n, unique=True))
    ln = draw(st.integers(2, 3))
    kw = {}
    for a in names:
        if draw(st.booleans()):
            kw[a] = draw(st.lists(st.integers(0, 9) | st.sampled_from(
                [0.5, 1.5]), min_size=ln, max_size=ln))      # -> a tuple
        else:
            kw[a] = draw(st.integers(0, 9) | st.sampled_from(["p", "q"]))
    return {"kw": kw,
            "via_runner": not any(isinstance(v, list) for v in kw.values())
            and "zz" not in kw}


# ----------------------------------------- several runs on one Runner object

def run_history(case):
    """A sub-grid (or anything else) given to ONE call must not reach the
    next call on the same Runner / Harvester."""
    x = xyz()
    cargs = case["args"]
    models.LOG.clear()
    fn = functools.partial(models.record_fn, _xv=("int", None))
    runner = x.Runner(fn, "out", fn_args=tuple(cargs + case["sub_names"]))
    farmer = x.Harvester(runner) if case["harvester"] else runner
    nsub = 0
    for k, step in enumerate(case["steps"]):
        cases = [tuple(c) for c in step["cases"]]
        sub = step.get("subgrid") or []
        nsub += bool(sub)
        kw = {}
        if sub:
            kw["combos"] = {a: list(v) for a, v in sub} \
                if step.get("sub_dict") else tuple((a, list(v))
                                                   for a, v in sub)
        models.LOG.clear()
        with under_test(f"step {k}"):
            if case["harvester"]:
                farmer.harvest_cases(cases, fn_args=tuple(cargs),
                                     overwrite=True, verbosity=0, **kw)
                ds = farmer.last_ds
            else:
                ds = farmer.run_cases(cases, fn_args=tuple(cargs),
                                      verbosity=0, **kw)
        exp = []
        for c in cases:
            for sv in itertools.product(*[v for _, v in sub]):
                kw_ = dict(zip(cargs, c))
                kw_.update(zip([a for a, _ in sub], sv))
                exp.append(models.canon_kw(kw_))
        calls = models.read_log(None)
        if collections.Counter(calls) != collections.Counter(exp):
            ce, cg = collections.Counter(exp), collections.Counter(calls)
            core.violated(
                "call-log",
                f"step {k}: {len(calls)} calls for {len(exp)} settings; "
                f"missing {list((ce - cg).elements())[:3]}; unexpected "
                f"{list((cg - ce).elements())[:3]}")
        want_dims = set(cargs) | {a for a, _ in sub}
        require(set(ds.dims) == want_dims, "dimensions",
                f"step {k}: dataset dimensions {sorted(ds.dims)}, asked for "
                f"{sorted(want_dims)}")
    return {"nontrivial": nsub > 0 and len(case["steps"]) >= 2,
            "classes": ["runner-history",
                        "harvester" if case["harvester"] else "runner"]}


@st.composite
def history_strategy(draw):
    cs = draw(gens.case_set(1, 2, 4))
    rest = [n for n in gens.ARG_NAMES if n not in cs["args"]]
    sub_names = draw(st.lists(st.sampled_from(rest), min_size=1, max_size=2,
                              unique=True))
    steps = []
    for _ in range(draw(st.integers(2, 4))):
        k = draw(st.integers(1, len(cs["cases"])))
        step = {"cases": draw(st.permutations(cs["cases"]))[:k]}
        if draw(st.booleans()):
            step["subgrid"] = [[a, draw(gens.arg_values(1, 2, mixed=False))]
                               for a in sub_names]
            step["sub_dict"] = draw(st.booleans())
        steps.append(step)
    return {"args": cs["args"], "sub_names": sub_names, "steps": steps,
            "harvester": draw(st.booleans())}


PHASES = [
    Phase("cases", run_case, strategy=strategy,
          examples={"quick": 4000, "thorough": 200000}),
    Phase("mixed-types", run_mixed, strategy=mixed_strategy,
          examples={"quick": 600, "thorough": 20000}),
    Phase("runner-history", run_history, strategy=history_strategy,
          examples={"quick": 400, "thorough": 10000}),
    Phase("large-sparse", run_large, strategy=large_strategy,
          examples={"quick": 16, "thorough": 200}, shrink=False),
    Phase("bare-dict", run_bare, strategy=bare_strategy,
          examples={"quick": 300, "thorough": 5000}),
]
