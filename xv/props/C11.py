"""C11 - concurrent growers and a waiting reaper always agree, under every
interleaving (harness-owned schedules)."""
import os
import glob
import fnmatch
import pickle
import shutil
import threading

from hypothesis import strategies as st

from .. import core, models, crops, fsx
from ..core import Phase, under_test, require

ID = "C11"
LEVEL = "exploration"
RULE = (
    "actors are threads under a baton scheduler: exactly one runs at a time "
    "and every operation on a path under results/ (create/truncate, each "
    "write chunk at 8 KiB boundaries, close, os.replace/rename, exists, "
    "isfile, open-for-read, read, glob) and every sleep of the wait loop is a "
    "yield point; operations on other paths commute and are not yield points "
    "(partial-order reduction); a sleeping waiter is not runnable until "
    "another actor has acted.  The SCHEDULE is a generated list of actor "
    "indices.  Configurations: crops of 1-3 batches, small and > 8 KiB "
    "results, one grower per batch plus optionally a second grower of one "
    "batch, a reap(wait=True) actor (in a third of the multi-batch cases one "
    "batch is grown beforehand and the reaper is also given "
    "allow_incomplete=True: it must still wait for everything) and "
    "optionally a progress poller.  For "
    "the smallest configurations (1 grower + reaper with small and > 8 KiB "
    "results; 2 growers of the same batch + reaper; 2 growers of the same "
    "batch + poller; 2 batches, 2 growers + reaper) ALL interleavings "
    "are enumerated by depth-first search over the scheduler's decisions.  "
    "Oracle: the reaper returns exactly the direct-run result and raises "
    "nothing; whenever the poller's queries count or list a result as "
    "finished, the file it saw was complete at that instant (harness reads it "
    "back in the same instant); a batch reported finished is never reported "
    "missing later.  Non-trivial = the reaper or poller looked at results/ "
    "while a grower had a result file open for writing."
)
ASSUMPTIONS = [
    "threads in one process stand in for processes sharing a directory; "
    "every actor has its own Crop object loaded by name",
    "a reader's open+read is a snapshot of the file at the read instant",
    "liveness is not claimed: a blocked waiter is reported as inconclusive "
    "(exit 2), not as a violation",
]

_lock = threading.Lock()


def xyz():
    return core.import_target()


def build_crop(x, root, case):
    kind = case["kind"]
    # (with 'fn_yields' the function itself looks at a file - so that
    # a grower can be overtaken while it is still computing)
    ypath = os.path.join(crops.crop_dir(root, "c11"), "results",
                         "xyz-result-999.jbdmp")
    slow = ypath if case.get("fn_yields") else None
    if case.get("fn_yields") and case.get("straggler"):
        # the last grower (a second one of its batch) is still inside the
        # function when the reaper has finished and tidied up
        slow = ("hold", ypath,
                os.path.join(crops.crop_dir(root, "c11"),
                             "xyz-settings.jbdmp"),
                f"actor-grow{len(case['growers']) - 1}")
    fn = crops.record(kind, None, slow, bool(case.get("fn_seeds")))
    N, B = case["N"], case["B"]
    crop = x.Crop(fn=fn, name="c11", parent_dir=root, num_batches=B)
    crop.sow_combos({"a": list(range(N))}, verbosity=0)
    expected = {}
    for i in crops.batch_ids(root, "c11"):
        expected[i] = tuple(models.result_of(kind, {"a": models.plain(
            kw["a"])}) for kw in crops.read_batch(root, "c11", i))
    direct = x.combo_runner(fn, {"a": list(range(N))}, verbosity=0)
    return expected, direct


def complete_ids(root, expected):
    """Batch ids whose result file is, right now, the complete result."""
    out = set()
    for i, want in expected.items():
        p = crops.result_path(root, "c11", i)
        try:
            with fsx._real["open"](p, "rb") as f:
                got = pickle.load(f)
        except Exception:
            continue
        if models.deep_eq(got, want):
            out.add(i)
    return out


_VIS = {}


class _Recorder:
    """Interceptor controller that only records what is looked at."""

    def __init__(self):
        self.ops = []

    def is_actor(self):
        return True

    def wants(self, path):
        return (os.sep + "results") in path

    def op(self, kind, path, **info):
        self.ops.append((kind, path))
        return None

    def die(self):
        raise RuntimeError


def visibility(x, root, case):
    """Which names in results/ do the observers look at?  (dry run of the
    observers alone on the completely grown crop)"""
    key = root
    if key in _VIS:
        return _VIS[key]
    c = x.Crop(name="c11", parent_dir=root)
    c.grow_missing()
    rec = _Recorder()
    icpt = fsx.Interceptor(root, rec, all_threads=True)
    icpt.install()
    try:
        if case.get("reaper", True):
            x.Crop(name="c11", parent_dir=root).reap(wait=True,
                                                     clean_up=False)
        cp = x.Crop(name="c11", parent_dir=root)
        cp.num_results
        cp.missing_results()
        cp.is_ready_to_reap()
        str(cp)
    finally:
        fsx.Interceptor.uninstall()
    vis = {"patterns": set(), "exact": set(), "listing": False}
    for kind, path in rec.ops:
        if kind == "glob":
            vis["patterns"].add(path)
        elif kind == "listdir":
            vis["listing"] = True
        elif kind in ("exists", "isfile", "open-r"):
            vis["exact"].add(path)
    resdir = os.path.join(crops.crop_dir(root, "c11"), "results")
    for f in os.listdir(resdir):
        os.remove(os.path.join(resdir, f))
    _VIS.clear()
    _VIS[key] = vis
    return vis


def one_run(x, root, case, expected, direct, schedule, default="rr"):
    """Run one schedule.  Returns (decisions, info) or raises
    PropertyViolation."""
    resdir = os.path.join(crops.crop_dir(root, "c11"), "results")
    for f in os.listdir(resdir):
        os.remove(os.path.join(resdir, f))
    B = case["B"]
    info = {"observed_inflight": 0, "ops": 0}
    writing = {}                 # actor -> path being written
    obs = {"glob": None, "isfile": {}}

    vis = visibility(x, root, case)

    def wants(path):
        # Only names that some observer can see are yield points (partial-
        # order reduction): the names and glob patterns the observers really
        # query were recorded in a dry run; operations on any other name in
        # results/ (e.g. a private temporary file) commute with everything
        # the other actors do.  If an observer lists the directory, every
        # name is visible.
        if (os.sep + "results") not in path:
            return False
        if vis["listing"] or path in vis["exact"]:
            return True
        return any(fnmatch.fnmatch(path, pat) for pat in vis["patterns"]) \
            or os.path.basename(path) == "results"

    def on_op(actor, kind, path):
        with fsx.bypass():
            return _on_op(actor, kind, path)

    def _on_op(actor, kind, path):
        info["ops"] += 1
        if actor.startswith("grow"):
            if kind == "create":
                writing[actor] = path
            elif kind in ("close",):
                writing.pop(actor, None)
            return
        # an observer (reaper / poller) looks at results/
        if kind in ("exists", "isfile", "glob", "open-r", "read") and (
                writing or any(a.get("started") and not a["done"]
                               for a in sched.actors
                               if a["name"].startswith("grow"))):
            info["observed_inflight"] += 1
        if actor == "poll":
            if (kind == "glob" and "xyz-result" in path) or \
                    (kind == "listdir" and path.rstrip(os.sep).endswith(
                        "results")):
                present = set()
                for p in fsx._real["glob"](os.path.join(
                        crops.crop_dir(root, "c11"), "results",
                        "xyz-result-*.jbdmp")):
                    present.add(int(os.path.basename(p).split("-")[2]
                                    .split(".")[0]))
                obs["glob"] = (present, complete_ids(root, expected))
            elif kind == "isfile":
                b = os.path.basename(path)
                if b.startswith("xyz-result-"):
                    i = int(b.split("-")[2].split(".")[0])
                    obs["isfile"][i] = (fsx._real["isfile"](path),
                                        i in complete_ids(root, expected))

    sched = fsx.Baton(schedule, wants=wants, on_op=on_op, default=default,
                      max_steps=3000)
    # every actor has its own Crop object (own process in reality)
    straggler = None
    for gi, b in enumerate(case["growers"]):
        c = x.Crop(name="c11", parent_dir=root)
        how = case.get("grow_how", "crop")
        if how == "crop":
            sched.add(f"grow{gi}", lambda c=c, b=b: c.grow(b + 1))
        else:
            sched.add(f"grow{gi}",
                      lambda c=c, b=b: x.grow(b + 1, crop=c, verbosity=0))
    if case.get("pre_grown") is not None:
        # one batch is finished before anybody starts (so that a waiting
        # reap may also be told to tolerate missing results)
        with core.quiet():
            x.Crop(name="c11", parent_dir=root).grow(
                case["pre_grown"] % B + 1)
    if case.get("reaper", True):
        cr = x.Crop(name="c11", parent_dir=root)
        ropts = {"allow_incomplete": True} \
            if case.get("pre_grown") is not None else {}
        # (waiting comes first: with wait=True every result is waited for,
        # whatever else is allowed)
        if case.get("reap_cleans"):
            # the default: the crop is removed once everything is reaped
            sched.add("reap", lambda: cr.reap(wait=True, **ropts))
        else:
            sched.add("reap", lambda: cr.reap(wait=True, clean_up=False,
                                              **ropts))
    reported = []
    if case.get("poller"):
        cp = x.Crop(name="c11", parent_dir=root)

        def poll():
            finished_before = set()
            for q in range(case["poller"]):
                obs["glob"], obs["isfile"] = None, {}
                n = cp.num_results
                g = obs["glob"]
                if g is not None:
                    present, truth = g
                    reported.append(("num_results", n, sorted(present),
                                     sorted(truth)))
                obs["isfile"] = {}
                miss = cp.missing_results()
                seen = dict(obs["isfile"])
                reported.append(("missing", tuple(miss), seen))
                # whatever the query looked at: a batch it calls finished has
                # a complete result file by the time it returns (completion
                # never goes away again)
                with fsx.bypass():
                    after = complete_ids(root, expected)
                reported.append(("missing-after", tuple(miss),
                                 sorted(after)))
                fin = set(range(1, B + 1)) - set(miss)
                reported.append(("regress", sorted(finished_before - fin)))
                finished_before |= fin
                obs["glob"] = None
                ready = cp.is_ready_to_reap()
                g = obs["glob"]
                if g is not None:
                    reported.append(("ready", ready, sorted(g[0]),
                                     sorted(g[1])))
        sched.add("poll", poll)

    icpt = fsx.Interceptor(root, sched)
    icpt.install()
    try:
        try:
            actors = sched.run()
        except fsx.Deadlock as e:
            raise core.HarnessError(f"C11 schedule did not terminate: {e}")
    finally:
        fsx.Interceptor.uninstall()
    info["yield_points"] = icpt.count
    if icpt.count == 0:
        raise core.HarnessError("no operation was intercepted")
    if straggler is not None and actors["reap"]["exc"] is None:
        try:
            with core.quiet():
                straggler()
        except FileNotFoundError:
            pass        # the crop is gone: nowhere to put the result
        except Exception as e:
            core.violated(f"grow-raised:{type(e).__name__}",
                          f"the late grower raised {e!r:.300}")

    # ---- oracles
    cdir_ = crops.crop_dir(root, "c11")
    for name, a in actors.items():
        if a["exc"] is not None:
            e = a["exc"]
            if isinstance(e, core.PropertyViolation):
                raise e
            if case.get("reap_cleans") and name.startswith("grow") and \
                    isinstance(e, FileNotFoundError) and \
                    actors["reap"]["exc"] is None:
                # a second grower of a batch that comes too late: the crop
                # is gone, it has nowhere to put its result
                continue
            where = core._innermost_repo_frame(e.__traceback__)
            core.violated(
                f"{'reaper' if name == 'reap' else name.rstrip('0123456789')}"
                f"-raised:{type(e).__name__}",
                f"actor {name} raised {type(e).__name__}: {e} (at {where}); "
                f"trace tail {sched.trace[-12:]}")
    if case.get("reaper", True):
        got = actors["reap"]["result"]
        require(models.deep_eq(got, direct), "reaper-wrong-result",
                lambda: f"reap(wait=True) returned {got!r:.300}, direct run "
                        f"{direct!r:.300}; trace tail {sched.trace[-12:]}")
    if case.get("reap_cleans") and case.get("reaper", True):
        require(not os.path.exists(cdir_), "crop-back-after-clean-up",
                f"the reaper removed the crop, yet "
                f"{sorted(os.listdir(cdir_)) if os.path.isdir(cdir_) else cdir_}"
                f" exists when everybody has finished (a late grower "
                f"re-created it): the next sow under this name would adopt "
                f"what is in there")
    for rec in reported:
        if rec[0] == "num_results":
            _, n, present, truth = rec
            require(set(present) <= set(truth) and n <= len(truth),
                    "partial-result-counted",
                    f"num_results={n} (result files {present}) while only "
                    f"{truth} were completely written at that instant")
        elif rec[0] == "missing":
            _, miss, seen = rec
            for i, (isf, comp) in seen.items():
                if i not in miss:
                    require(comp, "partial-result-not-missing",
                            f"missing_results()={miss} treats batch {i} as "
                            f"finished while its file was incomplete")
        elif rec[0] == "missing-after":
            _, miss, after = rec
            early = sorted(set(range(1, B + 1)) - set(miss) - set(after))
            require(not early, "partial-result-not-missing",
                    f"missing_results()={miss} treats batches {early} as "
                    f"finished; complete result files when it returned: "
                    f"{after}")
        elif rec[0] == "regress":
            require(not rec[1], "finished-batch-missing-again",
                    f"batches {rec[1]} were reported finished and later "
                    f"reported missing")
        elif rec[0] == "ready":
            _, ready, present, truth = rec
            if ready:
                require(set(truth) == set(range(1, B + 1)),
                        "ready-with-partial-results",
                        f"is_ready_to_reap() was True while only {truth} of "
                        f"{B} results were complete")
    return sched.decisions, info


def run_case(case):
    x = xyz()
    # (growers started by mpiexec find their rank in the environment; each
    # grower here is the rank-0 process of its own job)
    env = {"openmpi": "OMPI_COMM_WORLD_RANK", "mpich": "PMI_RANK"}.get(
        case.get("mpi"))
    try:
        if env:
            os.environ[env] = "0"
        with core.scratch("xv-c11-") as root:
            with _lock:
                expected, direct = build_crop(x, root, case)
                _, info = one_run(x, root, case, expected, direct,
                                  case["schedule"])
    finally:
        if env:
            os.environ.pop(env, None)
    return {"nontrivial": info["observed_inflight"] > 0,
            "classes": [f"B={case['B']}", f"kind={case['kind']}",
                        f"growers={len(case['growers'])}",
                        "same-batch-twice" if len(set(case["growers"])) <
                        len(case["growers"]) else "distinct-batches",
                        "poller" if case.get("poller") else "no-poller",
                        "observed-inflight" if info["observed_inflight"]
                        else "never-observed-inflight"],
            "notes": {"yield_points": info["yield_points"],
                      "schedules": 1}}


def run_dfs(case):
    """Enumerate ALL interleavings below the given decision prefix."""
    x = xyz()
    prefix = list(case["prefix"])
    n_sched = n_inflight = ops = truncated = 0
    with core.scratch("xv-c11x-") as root:
        expected, direct = build_crop(x, root, case)
        schedule = list(prefix)
        while True:
            decisions, info = one_run(x, root, case, expected, direct,
                                      schedule, default="zero")
            # the prefix must be a real path in the tree
            real = [c for _, c in decisions[:len(prefix)]]
            if any(p >= n for p, (n, _) in zip(prefix, decisions)) or \
                    real != prefix[:len(real)] or len(decisions) < len(prefix):
                return {"nontrivial": False, "classes": ["dfs-prefix-void"]}
            n_sched += 1
            n_inflight += 1 if info["observed_inflight"] else 0
            ops += info["yield_points"]
            # next leaf: bump the deepest decision that still has a sibling
            nxt = None
            for i in range(len(decisions) - 1, len(prefix) - 1, -1):
                n, c = decisions[i]
                if c + 1 < n:
                    nxt = [d[1] for d in decisions[:i]] + [c + 1]
                    break
            if nxt is None:
                break
            schedule = nxt
            if n_sched >= 4000:
                # far larger than on the unchanged tree: stop here; the
                # random-schedule phase keeps sampling this configuration
                truncated = 1
                break
    return {"nontrivial": n_inflight > 0,
            "classes": [f"dfs:{case['name']}"],
            "notes": {"schedules": n_sched, "yield_points": ops,
                      "schedules_observing_inflight": n_inflight,
                      "dfs_prefixes_truncated": truncated}}


# ---------------------------------------------------------------- strategies

@st.composite
def strategy(draw):
    B = draw(st.integers(1, 3))
    N = draw(st.integers(B, B + 3))
    growers = list(range(B))
    if draw(st.booleans()):
        growers.append(draw(st.integers(0, B - 1)))
    case = {"B": B, "N": N,
            "kind": draw(st.sampled_from(["int", "big", "int", "big",
                                          "huge"])),
            "growers": growers,
            "grow_how": draw(st.sampled_from(["crop", "xyzpy"])),
            "reaper": True,
            "poller": draw(st.sampled_from([0, 0, 1, 2])),
            "schedule": draw(st.lists(st.integers(0, 5), max_size=70))}
    if B >= 2 and draw(st.sampled_from([False, False, True])):
        case["pre_grown"] = draw(st.integers(0, B - 1))
    if len(growers) > B and draw(st.booleans()):
        # a batch grown twice and a reaper that tidies up afterwards
        case["reap_cleans"] = True
        case["straggler"] = draw(st.booleans())
        case["fn_yields"] = True
        case["poller"] = 0
        case.pop("pre_grown", None)     # (a tolerant reap keeps the crop)
    case["fn_seeds"] = draw(st.booleans())
    case["mpi"] = draw(st.sampled_from([None, None, "openmpi", "mpich"]))
    return case


DFS_CONFIGS = [
    {"name": "1grower+reaper", "B": 1, "N": 1, "kind": "int",
     "growers": [0], "reaper": True, "poller": 0},
    {"name": "1grower+reaper/big", "B": 1, "N": 2, "kind": "big",
     "growers": [0], "reaper": True, "poller": 0},
    {"name": "2growers-same-batch+reaper", "B": 1, "N": 1, "kind": "int",
     "growers": [0, 0], "reaper": True, "poller": 0},
    {"name": "2growers-same-batch+poller", "B": 1, "N": 1, "kind": "int",
     "growers": [0, 0], "reaper": False, "poller": 1},
    {"name": "2batches+reaper", "B": 2, "N": 2, "kind": "int",
     "growers": [0, 1], "reaper": True, "poller": 0},
]


def dfs_cases(tier, seed):
    import itertools
    for cfg in DFS_CONFIGS:
        n_act = len(cfg["growers"]) + int(cfg["reaper"]) + \
            int(bool(cfg["poller"]))
        for prefix in itertools.product(range(n_act), repeat=3):
            yield dict(cfg, prefix=list(prefix))


PHASES = [
    Phase("dfs", run_dfs, enumerate=dfs_cases,
          exhaustive={"quick": True, "thorough": True}),
    Phase("schedules", run_case, strategy=strategy,
          examples={"quick": 3000, "thorough": 300000}),
]
