"""C18 - infiniplot draws each data slice once, correctly styled and correctly
placed (artist readers)."""
import re
import random
import collections
import itertools
import warnings

import numpy as np
from hypothesis import strategies as st

from .. import core, models
from ..core import Phase, under_test, require

ID = "C18"
LEVEL = "exploration"
RULE = (
    "cases: datasets with 2-5 dimensions (sizes 1-4; x numeric), sparse NaNs "
    "and whole labels that are all-NaN (which infiniplot must drop from the "
    "style domain), an injective assignment of up to 4 dimensions to {color, "
    "hue, marker, linestyle, linewidth, markersize, row, col} - including one "
    "dimension mapped to two properties, fused dimensions and explicit "
    "*_order subsets/permutations - the other dimensions either left to be "
    "iterated or aggregated (True / list; median/mean/max/min; quantile, std, "
    "stderr ranges), join_across_missing, palette, x as coordinate or as a "
    "variable with xlink; histogram mode (bins None / int / explicit even or uneven edges, "
    "density or counts); heat-map mode (with / without palette, aggregated, "
    "row/col).  Oracle from the returned (fig, axs): for every combination of "
    "the remaining coordinates with any non-null y there is exactly one "
    "Line2D, in the panel whose title names its row/col labels, whose data "
    "equal the slice (NaNs kept; removed under join_across_missing), and "
    "there are no other lines; styles are checked RELATIONALLY (equal mapped "
    "coordinate => equal style value in all panels, different => different "
    "while distinct defaults remain); aggregated lines equal numpy "
    "nanmedian/nanmean/nanmax/nanmin; histogram lines equal numpy.histogram "
    "of the slice over all unmapped dimensions on the drawn bin edges; "
    "heat-map meshes equal the (aggregated) z on (y, x) - for the default "
    "colouring the RGBA cells are decoded (saturation = |z|/max|z|, two hues "
    "by sign, NaN grey) - with cell centres on the coordinates; the input "
    "dataset is identical afterwards.  Non-trivial = >= 2 mapped dimensions "
    "incl. a panel dimension, or a dropped all-NaN label, or aggregation."
)
ASSUMPTIONS = [
    "lines are matched to slices by their data (random data make slices "
    "distinct); labels are not relied upon",
    "in histogram mode only whole-label NaNs are generated",
    "row/col are never fused dimensions",
]

STYLE_PROPS = ["color", "hue", "marker", "linestyle", "linewidth",
               "markersize"]
LIMIT = {"marker": 15, "linestyle": 6, "color": 7, "hue": 4,
         "linewidth": 99, "markersize": 99}


def xyz():
    x = core.import_target()
    import matplotlib
    matplotlib.use("Agg")
    return x


def labels_for(name, n):
    if name == "b":
        return ["p", "qq", "r", "s"][:n]
    if name == "c":
        return [10, 20, 30, 40][:n]
    if name == "d":
        # (two of them agree to six digits)
        return [0.5, 0.5000001, 2.5, 3.5][:n]
    if name == "e":
        if n <= 2:
            return [False, True][:n]       # a flag that was swept
        return ["u", "v", "w", "x"][:n]
    raise KeyError(name)


def build(case):
    import xarray as xr
    rng = random.Random(case["seed"])
    nx = case["nx"]
    xs = [1.0 + 0.75 * i for i in range(nx)]
    dims = [d for d, _ in case["dims"]]
    sizes = {d: n for d, n in case["dims"]}
    coords = {d: labels_for(d, n) for d, n in case["dims"]}
    xname = "a"
    coords[xname] = xs
    order = dims + [xname]
    random.Random(case["seed"] + 1).shuffle(order)
    full = {**sizes, xname: nx}
    shape = tuple(full[d] for d in order)
    y = np.array([rng.uniform(-4, 4) for _ in range(int(np.prod(shape)))]
                 ).reshape(shape)
    mask = np.array([rng.random() < case["p_nan"] for _ in range(y.size)]
                    ).reshape(shape)
    y = np.where(mask, np.nan, y)
    if case.get("p_inf"):
        # +-inf is data (it is NOT missing): kept also when joining across
        # the missing points
        minf = np.array([rng.random() < case["p_inf"] for _ in range(y.size)]
                        ).reshape(shape)
        sign = np.array([rng.choice((-1.0, 1.0)) for _ in range(y.size)]
                        ).reshape(shape)
        y = np.where(minf & ~np.isnan(y), sign * np.inf, y)
    for d, idxs in case.get("dead", {}).items():
        if d in sizes:
            for i in idxs:
                sl = [slice(None)] * len(order)
                sl[order.index(d)] = i % sizes[d]
                y[tuple(sl)] = np.nan
    dv = {"y": (order, y)}
    if case.get("err_var"):
        # an error estimate with missing values of its own
        re_ = random.Random(case["seed"] + 5)
        e = np.array([re_.uniform(0.1, 0.5) for _ in range(y.size)]
                     ).reshape(shape)
        me_ = np.array([re_.random() < 0.3 for _ in range(y.size)]
                       ).reshape(shape)
        dv["yerr"] = (order, np.where(me_, np.nan, e))
    if case.get("x_is_var"):
        # x varies with one other dimension and the link dimension 'a'
        d0 = dims[0]
        xv = np.array([[xs[j] + 0.125 * i for j in range(nx)]
                       for i in range(sizes[d0])])
        if case.get("x_nan"):
            # x itself is undefined at some points (where y may be known)
            rx_ = random.Random(case["seed"] + 9)
            mx_ = np.array([rx_.random() < 0.25 for _ in range(xv.size)]
                           ).reshape(xv.shape)
            xv = np.where(mx_, np.nan, xv)
        dv["xv"] = ((d0, xname), xv)
    return xr.Dataset(dv, coords=coords)


def close_all():
    import matplotlib.pyplot as plt
    plt.close("all")


def panel_key(ax, row, col):
    """(row label str or None, col label str or None) from the title text."""
    out = {"row": None, "col": None}
    txt = " ".join(t.get_text() for t in ax.texts)
    for kind, dim in (("row", row), ("col", col)):
        if dim is None:
            continue
        m = re.search(r"\\bf\{" + re.escape(dim) + r"\}\$=([^,]*)", txt)
        out[kind] = m.group(1).strip() if m else "?"
    return out["row"], out["col"]


def same_data(a, b, tol=0.0):
    a, b = np.asarray(a, float), np.asarray(b, float)
    if a.shape != b.shape:
        return False
    if tol:
        return bool(np.allclose(a, b, rtol=tol, atol=tol, equal_nan=True))
    return bool(np.array_equal(a, b, equal_nan=True))


def _signature(ex, ey):
    a = np.concatenate([np.asarray(ex, float).ravel(),
                        np.asarray(ey, float).ravel()])
    a = np.where(np.isnan(a), np.nan, a) + 0.0      # one NaN, one zero
    return a.tobytes()


def style_of(line):
    import matplotlib.colors as mc
    dash = getattr(line, "_unscaled_dash_pattern", None) or \
        getattr(line, "_dash_pattern", None)
    return {"color": tuple(round(v, 6) for v in mc.to_rgba(line.get_color())),
            "marker": str(line.get_marker()),
            "linestyle": repr(dash),
            "linewidth": round(float(line.get_linewidth()), 6),
            "markersize": round(float(line.get_markersize()), 6)}


def run_case(case):
    x = xyz()
    close_all()
    ds = build(case)
    before = ds.copy(deep=True)
    try:
        with warnings.catch_warnings():
            warnings.simplefilter("ignore")
            if case["mode"] == "lines":
                info = check_lines(x, case, ds)
            elif case["mode"] == "hist":
                info = check_hist(x, case, ds)
            else:
                info = check_heat(x, case, ds)
    finally:
        close_all()
    require(ds.identical(before), "input-modified",
            "the dataset passed in was modified")
    return info


def mapping_kwargs(case):
    kw = {}
    for prop, dim in case["map"].items():
        kw[prop] = dim
    for prop, idxs in case.get("orders", {}).items():
        dim = case["map"].get(prop)
        if isinstance(dim, str):
            labs = labels_for(dim, dict(case["dims"])[dim])
            sel = []
            for i in idxs:
                l = labs[i % len(labs)]
                if l not in sel:
                    sel.append(l)
            kw[f"{prop}_order"] = sel
    return kw


def pick(ds, var, sel, dims):
    """ds[var] at the labels sel[d] (by position: a list of booleans given to
    .sel would be read as a mask)."""
    return ds[var].isel({d: [ds[d].values.tolist().index(l) for l in sel[d]]
                         for d in dims})


def selected_labels(case, ds):
    """{dim: labels in play} after the explicit *_order selections."""
    out = {d: list(ds[d].values.tolist()) for d, _ in case["dims"]}
    kw = mapping_kwargs(case)
    for prop, dim in case["map"].items():
        o = kw.get(f"{prop}_order")
        if o is not None and isinstance(dim, str):
            out[dim] = [l for l in out[dim] if l in o]
    return out


def check_lines(x, case, ds):
    dims = [d for d, _ in case["dims"]]
    kw = mapping_kwargs(case)
    mapped = set()
    for dim in case["map"].values():
        mapped |= set(dim) if isinstance(dim, list) else {dim}
    rest = [d for d in dims if d not in mapped]
    agg = []
    if case["rest"] == "aggregate_true" and rest:
        kw["aggregate"] = True
        agg = list(rest)
    elif case["rest"] == "aggregate_list" and rest:
        agg = rest[:1]
        kw["aggregate"] = agg[0] if case.get("agg_str") else list(agg)
    if agg:
        kw["aggregate_method"] = case["agg_method"]
        kw["aggregate_err_range"] = case["agg_err"]
    if case.get("join"):
        kw["join_across_missing"] = True
    if case.get("palette"):
        kw["palette"] = case["palette"]
    if case.get("err_var") and not agg:
        kw["err"] = "yerr"
        kw["err_style"] = "band"      # (bars would add cap lines)
    xname = "a"
    if case.get("x_is_var"):
        xname = "xv"
        kw["xlink"] = "a"
    sel = selected_labels(case, ds)
    if not np.any(np.isfinite(pick(ds, "y", sel, dims).values)):
        # the selection holds no data at all: nothing can be required
        return {"nontrivial": False, "classes": ["mode=lines", "empty"]}
    row, col = case["map"].get("row"), case["map"].get("col")
    user_axs = None
    if case.get("user_axs") and (row or col) and not case.get("dead") \
            and case["p_nan"] == 0 and "row" not in case.get("orders", {}) \
            and "col" not in case.get("orders", {}):
        # the caller brings a grid of axes that is wider than needed
        import matplotlib.pyplot as plt
        nr = len(sel[row]) if row else 1
        nc = len(sel[col]) if col else 1
        _, user_axs = plt.subplots(nr, nc + case["user_axs"], squeeze=False)
        kw["axs"] = user_axs
    with under_test("infiniplot"):
        fig, axs = x.infiniplot(ds, xname, "y", show_and_close=False, **kw)

    # ---- reference: every combination of the remaining coordinates
    iter_dims = [d for d in dims if d not in agg]
    Y = pick(ds, "y", sel, dims).transpose(*dims, "a")
    Yv = Y.values
    if agg:
        axes = tuple(dims.index(d) for d in agg)
        fn = {"median": np.nanmedian, "mean": np.nanmean, "max": np.nanmax,
              "min": np.nanmin}[case["agg_method"]]
        Yv = fn(Yv, axis=axes)
    xs = ds["a"].values
    expected = []
    for combo in itertools.product(*[range(len(sel[d])) for d in iter_dims]):
        ys = Yv[combo]
        loc = {d: sel[d][i] for d, i in zip(iter_dims, combo)}
        if case.get("x_is_var"):
            d0 = dims[0]
            xrow = pick(ds, "xv", {d0: [loc[d0]]}, [d0]).values[0] if d0 in loc else None
            if xrow is None:       # d0 aggregated away: x no longer defined
                continue
        else:
            xrow = xs
        # a point is a point where both x and y are known
        valid = ~np.isnan(ys)
        if case.get("x_is_var"):
            valid = valid & ~np.isnan(xrow)
        if not np.any(valid):
            continue
        if case.get("join"):
            keep = valid
            expected.append((loc, xrow[keep], ys[keep]))
        else:
            expected.append((loc, xrow, ys))

    # ---- what was drawn
    drawn = []
    if user_axs is not None:
        # panels are known by their position in the caller's grid
        for (i_, j_), ax in np.ndenumerate(user_axs):
            key = ((str(sel[row][i_]) if i_ < len(sel[row]) else "spare")
                   if row else None,
                   (str(sel[col][j_]) if j_ < len(sel[col]) else "spare")
                   if col else None)
            for ln in ax.get_lines():
                drawn.append((key, ln))
    else:
        for ax in axs.flat:
            key = panel_key(ax, row, col)
            for ln in ax.get_lines():
                drawn.append((key, ln))
    require(len(drawn) == len(expected), "line-count",
            f"{len(drawn)} lines drawn for {len(expected)} combinations of "
            f"coordinates with data")
    used = set()
    matched = []
    tol = 1e-12 if agg else 0.0
    # two slices can carry the very same numbers (short series of +-inf and
    # gaps): which of the identical lines stands for which of them cannot be
    # read off the figure, so such slices are only counted, not placed
    sig = collections.Counter(_signature(ex, ey) for _, ex, ey in expected)
    for loc, ex, ey in expected:
        want_key = (str(loc[row]) if row else None,
                    str(loc[col]) if col else None)
        twin = sig[_signature(ex, ey)] > 1
        hit = None
        for k, (key, ln) in enumerate(drawn):
            if k in used:
                continue
            if same_data(ln.get_ydata(), ey, tol) and \
                    same_data(ln.get_xdata(), ex, tol):
                hit = k
                break
        require(hit is not None, "slice-not-drawn",
                lambda: f"no line carries the slice at {loc}: y="
                        f"{np.asarray(ey).tolist()}")
        used.add(hit)
        if twin:
            continue
        key, ln = drawn[hit]
        require(key == want_key, "slice-in-wrong-panel",
                f"the slice at {loc} is drawn in the panel titled "
                f"(row={key[0]}, col={key[1]}), expected (row={want_key[0]}, "
                f"col={want_key[1]})")
        matched.append((loc, ln))

    # ---- relational style consistency
    dropped = any(len(set(l[d] for l, _ in matched)) < len(sel[d])
                  for d in iter_dims if d in mapped) if matched else False
    for prop in ("marker", "linestyle", "linewidth", "markersize"):
        dim = case["map"].get(prop)
        if dim is None:
            continue
        ds_ = dim if isinstance(dim, list) else [dim]
        _relation(matched, ds_, prop, prop, sel)
    cdims = []
    for prop in ("hue", "color"):
        dim = case["map"].get(prop)
        if dim is not None:
            cdims += dim if isinstance(dim, list) else [dim]
    if cdims:
        _relation(matched, cdims, "color", "color", sel)
    npanel = (1 if row is None else 1) + (0 if col is None else 1)
    nt = (len(mapped) >= 2 and (row or col)) or dropped or bool(agg)
    return {"nontrivial": bool(nt),
            "classes": ["mode=lines", f"mapped={len(mapped)}",
                        "panels" if (row or col) else "single-panel",
                        "aggregated" if agg else "iterated",
                        "dropped-label" if dropped else "no-dropped-label",
                        "join" if case.get("join") else "gaps-kept",
                        "x-variable" if case.get("x_is_var") else "x-coord",
                        "caller-axes" if user_axs is not None
                        else "own-axes"]}


def _relation(matched, dims, prop, readout, sel):
    table = {}
    for loc, ln in matched:
        key = tuple(loc[d] for d in dims)
        val = style_of(ln)[readout]
        if key in table:
            require(table[key] == val, "style-not-consistent",
                    f"{prop}: coordinate {dict(zip(dims, key))} is drawn "
                    f"with {table[key]} and with {val}")
        table[key] = val
    # default styles are handed out to every selected coordinate (also one
    # that turns out to hold no data), so "distinct styles remain" is about
    # the number of selected coordinates, not of drawn ones
    ncand = 1
    for d in dims:
        ncand *= len(sel[d])
    if max(ncand, len(table)) <= LIMIT.get(prop, 99):
        vals = list(table.values())
        require(len(set(map(repr, vals))) == len(vals),
                "style-not-distinct",
                f"{prop}: different coordinates share a style value: "
                f"{ {k: v for k, v in table.items()} }")


def check_hist(x, case, ds):
    dims = [d for d, _ in case["dims"]]
    kw = mapping_kwargs(case)
    mapped = set(v for v in case["map"].values() if isinstance(v, str))
    bins = case.get("bins")
    sel0 = selected_labels(case, ds)
    allv = pick(ds, "y", sel0, dims).values
    if not np.any(np.isfinite(allv)):
        allv = ds["y"].values
    lo, hi = np.nanmin(allv), np.nanmax(allv)
    if bins in ("edges", "uneven"):
        edges_in = np.linspace(lo - 0.5, hi + 0.5, 6)
        if bins == "uneven":
            # bins of different widths (fine in the middle, coarse outside)
            span = (hi - lo) + 1.0
            edges_in = (lo - 0.5) + span * np.array(
                [0.0, 0.3, 0.4, 0.5, 0.75, 1.0])
        kw["bins"] = edges_in.tolist() if case.get("bins_list") else edges_in
    elif isinstance(bins, int):
        kw["bins"] = bins
    kw["bins_density"] = case["density"]
    with under_test("infiniplot(histogram)"):
        fig, axs = x.infiniplot(ds, "y", show_and_close=False, **kw)
    row, col = case["map"].get("row"), case["map"].get("col")
    sel = selected_labels(case, ds)
    mdims = [d for d in dims if d in mapped]
    rest = [d for d in dims if d not in mapped] + ["a"]
    Y = pick(ds, "y", sel, dims).transpose(*mdims, *rest)
    Yv = Y.values.reshape(tuple(len(sel[d]) for d in mdims) + (-1,))
    # labels that are entirely NaN are dropped from the domain
    drawn = [(panel_key(ax, row, col), ln) for ax in axs.flat
             for ln in ax.get_lines()]
    expected = []
    for combo in itertools.product(*[range(len(sel[d])) for d in mdims]):
        vals = Yv[combo]
        if not np.any(np.isfinite(vals)):
            continue
        expected.append(({d: sel[d][i] for d, i in zip(mdims, combo)}, vals))
    require(len(drawn) == len(expected), "line-count",
            f"{len(drawn)} histogram lines for {len(expected)} slices")
    used = set()
    for loc, vals in expected:
        want_key = (str(loc[row]) if row else None,
                    str(loc[col]) if col else None)
        hit = None
        for k, (key, ln) in enumerate(drawn):
            if k in used or key != want_key:
                continue
            cen = np.asarray(ln.get_xdata(), float)
            if bins in ("edges", "uneven"):
                edges = edges_in
            else:
                # uniform bins over the data range (edges recomputed rather
                # than decoded, so that the extreme values sit exactly on
                # the outer edges)
                edges = np.linspace(float(lo), float(hi), len(cen) + 1)
            want, _ = np.histogram(vals, bins=edges, density=case["density"])
            if same_data(ln.get_ydata(), want, 1e-9):
                hit = k
                # the drawn bins must cover the data and sit mid-bin
                require(np.allclose(cen, (edges[1:] + edges[:-1]) / 2,
                                    atol=1e-9), "bin-centres", f"{cen}")
                if bins not in ("edges", "uneven"):
                    require(abs(edges[0] - lo) < 1e-9 and
                            abs(edges[-1] - hi) < 1e-9, "bin-range",
                            f"bins span [{edges[0]}, {edges[-1]}], data "
                            f"[{lo}, {hi}]")
                    if isinstance(bins, int):
                        require(len(cen) == bins, "bin-count",
                                f"{len(cen)} bins for bins={bins}")
                break
        require(hit is not None, "histogram-not-drawn",
                lambda: f"no line in panel {want_key} is the "
                        f"{'density' if case['density'] else 'count'} "
                        f"histogram of the slice at {loc}")
        used.add(hit)
    return {"nontrivial": len(mapped) >= 1,
            "classes": ["mode=hist", f"bins={bins}",
                        f"density={case['density']}",
                        f"mapped={len(mapped)}"]}


def check_heat(x, case, ds):
    import matplotlib.colors as mc
    dims = [d for d, _ in case["dims"]]
    ydim = dims[0]
    others = dims[1:]
    kw = {}
    row, col = case["map"].get("row"), case["map"].get("col")
    for k in ("row", "col"):
        if case["map"].get(k):
            kw[k] = case["map"][k]
    mapped = {v for v in (row, col) if v}
    agg = [d for d in others if d not in mapped]
    if agg:
        kw["aggregate"] = True
        kw["aggregate_method"] = case["agg_method"]
    if case.get("palette"):
        kw["palette"] = case["palette"]
    # numeric y axis needed
    ynum = ds.assign_coords({ydim: np.arange(ds.sizes[ydim]) * 2.0 + 1.0})
    before = ynum.copy(deep=True)
    if not np.any(np.isfinite(ynum["y"].values)):
        return {"nontrivial": False, "classes": ["mode=heat", "empty"]}
    with under_test("infiniplot(heatmap)"):
        fig, axs = x.infiniplot(ynum, "a", ydim, "y", show_and_close=False,
                                **kw)
    require(ynum.identical(before), "input-modified", "dataset modified")
    Z = ynum["y"].transpose(*others, ydim, "a").values
    if agg:
        fn = {"median": np.nanmedian, "mean": np.nanmean, "max": np.nanmax,
              "min": np.nanmin}[case["agg_method"]]
        Z = fn(Z, axis=tuple(others.index(d) for d in agg))
    keep = [d for d in others if d not in agg]
    finite = Z[np.isfinite(Z)]
    max_mag = np.max(np.abs(finite)) if finite.size else 1.0
    xs, ys = ynum["a"].values, ynum[ydim].values
    n_meshes = 0
    for ax in axs.flat:
        key = panel_key(ax, row, col)
        qms = [c for c in ax.collections if type(c).__name__ == "QuadMesh"]
        if not qms:
            continue
        require(len(qms) == 1, "quadmesh-count", f"{len(qms)}")
        n_meshes += 1
        loc = []
        for d in keep:
            lab = key[0] if d == row else key[1]
            labs = [str(v) for v in ynum[d].values.tolist()]
            require(lab in labs, "panel-title", f"title names {lab!r}")
            loc.append(labs.index(lab))
        want = Z[tuple(loc)] if loc else Z
        arr = np.ma.filled(np.ma.asarray(qms[0].get_array()).astype(float),
                           np.nan)
        if case.get("palette"):
            got = arr.reshape(want.shape)
            require(same_data(got, np.where(np.isfinite(want), want, np.nan),
                              1e-12), "heatmap-data",
                    lambda: f"panel {key}: mesh {got.tolist()} vs z "
                            f"{want.tolist()}")
        else:
            rgba = arr.reshape(want.shape + (4,))
            fin = np.isfinite(want)
            hsv = mc.rgb_to_hsv(np.clip(rgba[..., :3], 0, 1))
            sat_want = np.abs(want) / max_mag
            require(np.allclose(hsv[..., 1][fin], sat_want[fin], atol=1e-6),
                    "heatmap-magnitude",
                    lambda: f"panel {key}: saturation "
                            f"{hsv[..., 1][fin].tolist()} vs |z|/max|z| "
                            f"{sat_want[fin].tolist()}")
            sig = np.sign(want[fin])
            hues = hsv[..., 0][fin]
            strong = sat_want[fin] > 1e-3
            pos = hues[strong & (sig > 0)]
            neg = hues[strong & (sig < 0)]
            ok = (pos.size == 0 or np.ptp(pos) < 0.01) and \
                (neg.size == 0 or np.ptp(neg) < 0.01) and \
                (pos.size == 0 or neg.size == 0 or
                 abs(pos.mean() - neg.mean()) > 0.05)
            require(ok, "heatmap-sign",
                    f"panel {key}: hues for z>0 {sorted(set(pos.round(3)))}"
                    f", for z<0 {sorted(set(neg.round(3)))}")
            if (~fin).any():
                require(np.allclose(rgba[~fin], (0.5, 0.5, 0.5, 0.5)),
                        "heatmap-missing-not-grey", f"panel {key}")
        cc = np.asarray(qms[0].get_coordinates(), float)
        cx = (cc[0, :-1, 0] + cc[0, 1:, 0]) / 2
        cy = (cc[:-1, 0, 1] + cc[1:, 0, 1]) / 2
        require(np.allclose(cx, xs, atol=1e-9) and
                np.allclose(cy, ys, atol=1e-9), "mesh-centres",
                f"panel {key}: centres {cx.tolist()} / {cy.tolist()}")
    n_want = 1
    for d in keep:
        other_axes = tuple(i for i in range(Z.ndim) if i != keep.index(d))
        alive = np.any(np.isfinite(Z), axis=other_axes)
        n_want *= int(alive.sum())
    require(n_meshes == n_want, "panel-count",
            f"{n_meshes} heat-map panels for {n_want} row/col labels")
    return {"nontrivial": bool(agg) or bool(mapped),
            "classes": ["mode=heat", "palette" if case.get("palette") else
                        "default-colouring",
                        "aggregated" if agg else "no-aggregation",
                        "panels" if mapped else "single-panel"]}


# ----------------------------------------------------------------- strategy

@st.composite
def strategy(draw):
    mode = draw(st.sampled_from(["lines", "lines", "lines", "hist", "heat"]))
    nd = draw(st.sampled_from([2, 3, 1, 4, 3, 2]))
    names = ["b", "c", "d", "e"][:nd]
    dims = [[n, draw(st.integers(1, 4 if nd < 4 else 3))] for n in names]
    case = {"mode": mode, "seed": draw(st.integers(0, 2**20)),
            "nx": draw(st.integers(2, 5)), "dims": dims,
            "p_nan": draw(st.sampled_from([0.0, 0.0, 0.15, 0.4])),
            "dead": {}, "map": {}, "orders": {}}
    for n, sz in dims:
        if sz > 1 and draw(st.sampled_from([False, False, True])):
            case["dead"][n] = [draw(st.integers(0, 3))]
    if mode == "heat":
        case["p_nan"] = draw(st.sampled_from([0.0, 0.1]))
        avail = names[1:]
        panels = draw(st.permutations(["row", "col"]))
        for prop, d in zip(panels, avail[:draw(st.integers(0, 2))]):
            case["map"][prop] = d
        case["agg_method"] = draw(st.sampled_from(["median", "mean", "max"]))
        case["palette"] = draw(st.sampled_from([None, "viridis"]))
        return case
    props = draw(st.permutations(STYLE_PROPS + ["row", "col"]))
    k = min(nd, draw(st.sampled_from([2, 1, 3, 2, 4, 0, 3])))
    chosen = draw(st.permutations(names))[:k]
    for prop, d in zip(props, chosen):
        case["map"][prop] = d
    # (a dimension given through ``hue=`` alone stays spelled that way: the
    # package treats it as the colour mapping, order selection included)
    if mode == "hist":
        case["p_nan"] = 0.0
        case["bins"] = draw(st.sampled_from([None, 4, 7, "edges",
                                             "uneven"]))
        case["bins_list"] = draw(st.booleans())
        case["density"] = draw(st.booleans())
        case["nx"] = 5
        return case
    # one dimension mapped to two properties / fused dimensions
    extra = draw(st.sampled_from(["none", "none", "double", "fused"]))
    style_in = [p for p in case["map"] if p not in ("row", "col")]
    free = [p for p in ("marker", "linestyle", "linewidth", "markersize")
            if p not in case["map"]]
    unmapped = [n for n in names if n not in case["map"].values()]
    if extra == "double" and style_in and free:
        case["map"][free[0]] = case["map"][style_in[0]]
    elif extra == "fused" and len(unmapped) >= 2 and free:
        case["map"][free[0]] = unmapped[:2]
    for prop, d in list(case["map"].items()):
        twice = list(case["map"].values()).count(d) > 1
        if isinstance(d, str) and not twice and \
                draw(st.sampled_from([False, False, True])):
            case["orders"][prop] = draw(st.lists(st.integers(0, 3),
                                                 min_size=1, max_size=4))
    case["rest"] = draw(st.sampled_from(["iterate", "iterate",
                                         "aggregate_true",
                                         "aggregate_list"]))
    case["agg_str"] = draw(st.booleans())
    case["agg_method"] = draw(st.sampled_from(["median", "mean", "max",
                                               "min"]))
    case["agg_err"] = draw(st.sampled_from([0.5, 1.0, "std", "stderr"]))
    case["join"] = draw(st.booleans())
    case["palette"] = draw(st.sampled_from([None, None, "viridis"]))
    case["x_is_var"] = draw(st.sampled_from([False, False, False, True])) \
        and case["rest"] == "iterate"
    case["x_nan"] = bool(case["x_is_var"]) and draw(st.booleans())
    if case["rest"] == "iterate":
        case["p_inf"] = draw(st.sampled_from([0.0, 0.0, 0.2]))
    case["err_var"] = case["rest"] == "iterate" and \
        draw(st.sampled_from([False, False, True]))
    case["user_axs"] = draw(st.sampled_from([0, 1, 2])) \
        if ("row" in case["map"] or "col" in case["map"]) else 0
    return case


PHASES = [
    Phase("figures", run_case, strategy=strategy,
          examples={"quick": 1600, "thorough": 50000}),
]
