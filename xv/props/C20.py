"""C20 - a number formatted with its error reads back as that number and that
error.  Oracle: independent reader (xv/oracle_c20.py)."""
import os
import sys
import json
import math
import itertools
import subprocess

from hypothesis import strategies as st

from .. import core
from ..core import Phase, PropertyViolation, under_test
from .. import oracle_c20 as oracle

ID = "C20"
LEVEL = "exploration"
RULE = (
    "cases are (x, err) pairs: (hyp) Hypothesis floats, sign x mantissa in "
    "[1,10) x exponent in -300..300 (and x=+-0 with any positive error down "
    "to 5e-324), err=|x|*10^U(-12,12) clamped "
    "to [1e-300, largest finite double]; (lattice) itertools.product of err "
    "mantissas around every 2-s.f. rounding boundary (k/10+0.05 +- "
    "{0,1e-9,1e-6,1e-3}), x mantissas around 1 and 10, relative exponent "
    "-12..12, absolute exponents and both signs; (atheris) coverage-guided "
    "bytes -> two doubles.  Oracle: independent regex reader; the bracket "
    "must hold two significant digits, |shown error - err| <= half a unit of "
    "err's own second significant digit, |shown value - x| <= half a unit of "
    "the last shown digit (both (1+1e-9) + 8*2^-53*|.| for double rounding). "
    "Non-trivial = err rounds up across a power of ten (9.95..->10), or |x| "
    "within 1e-3 of a power of ten, or err/|x| within 5% of 0.1 or 1; "
    "distinct = distinct (x, err) pairs (lattice points are distinct by "
    "construction)."
)
ASSUMPTIONS = [
    "for x != 0: err >= 1e-300 (the ratio bounds of the property keep it "
    "normal); for x == 0 every positive double, sub-normal ones included; "
    "upwards every finite double",
    "ties (exactly half a unit) are accepted either way",
    "the reader's convention: bracketed digits are the uncertainty in the "
    "last shown digits, times the shown power of ten",
]

_fn = None
FMAX = sys.float_info.max    # largest finite error: |x| <= 1e300, ratio 1e12


def fn():
    global _fn
    if _fn is None:
        xyzpy = core.import_target()
        from xyzpy.utils import format_number_with_error
        _fn = format_number_with_error
    return _fn


def run_case(case):
    x, err = float(case["x"]), float(case["err"])
    if case.get("dec"):
        # the caller happens to work with a reduced decimal context: the
        # string is a function of (x, err) alone
        import decimal
        with decimal.localcontext() as ctx:
            ctx.prec = case["dec"]
            ctx.rounding = decimal.ROUND_DOWN
            with under_test("format_number_with_error"):
                s = fn()(x, err)
    else:
        with under_test("format_number_with_error"):
            s = fn()(x, err)
    bad = oracle.check(x, err, s)
    if bad is not None:
        raise PropertyViolation(bad[0], f"x={x!r} err={err!r}: {bad[1]}")
    return {"nontrivial": oracle.nontrivial(x, err)}


def classes(case):
    x, err = case["x"], case["err"]
    out = []
    if x == 0:
        out.append("x=0")
    else:
        r = err / abs(x)
        out.append("err>x" if r > 1 else "err<x/10" if r < .1 else "err~x")
        out.append("neg" if x < 0 else "pos")
    try:
        s = fn()(x, err)
    except Exception:
        s = None        # (reported by run_case)
    out.append("no-string" if s is None else
               "exponent-shown" if "e" in s else "exponent-hidden")
    out.append("err>1e300" if err > 1e300 else "err<=1e300")
    return out


# ---------------------------------------------------------------- hypothesis

def _mant():
    return st.one_of(
        st.floats(1.0, 10.0, exclude_max=True),
        st.sampled_from([1.0, 9.5, 9.94, 9.95, 9.96, 9.99, 9.999999]),
        st.integers(9940, 9999).map(lambda i: i / 1000),
        st.integers(1000, 1010).map(lambda i: i / 1000),
    )


@st.composite
def strategy(draw):
    if draw(st.integers(0, 19)) == 0:
        # an exact zero goes with ANY error, down to the smallest double
        x = draw(st.sampled_from([0.0, -0.0]))
        ee = draw(st.integers(-323, 308))
        err = min(max(draw(_mant()) * 10.0 ** ee, 5e-324), FMAX)
        return {"x": x, "err": err}
    else:
        xe = draw(st.one_of(st.integers(-300, 299), st.integers(-4, 4)))
        x = draw(_mant()) * 10.0 ** xe
        if draw(st.booleans()):
            x = -x
        ee = xe + draw(st.integers(-12, 12))
    err = min(draw(_mant()) * 10.0 ** max(-300, min(308, ee)), FMAX)
    case = {"x": x, "err": err}
    if draw(st.integers(0, 9)) == 0:
        case["dec"] = draw(st.sampled_from([3, 6, 9]))
    return case


# ------------------------------------------------------------------- lattice

def _err_mantissas(tier):
    if tier == "quick":
        ks = [10, 14, 55, 98, 99]
        offs = ["-1e-3", "-1e-9", "0", "1e-9", "1e-3"]
    else:
        ks = range(10, 100)
        offs = ["-1e-3", "-1e-6", "-1e-9", "0", "1e-9", "1e-6", "1e-3"]
    out = []
    from decimal import Decimal
    for k in ks:
        b = Decimal(k) / 10 + Decimal("0.05")
        for o in offs:
            m = b + Decimal(o)
            if Decimal(1) <= m < Decimal(10):
                out.append(str(m))
    out += ["1", "1.0000001", "9.99", "9.9999", "9.99999999"]
    return out


def _x_mantissas(tier):
    base = ["1", "1.0000001", "1.0005", "1.05", "1.5", "2", "3.14159", "5",
            "9.5", "9.949", "9.95", "9.951", "9.99", "9.995", "9.9995",
            "9.99999", "9.9999999999"]
    if tier == "thorough":
        base += ["1.00000000001", "1.005", "1.0049", "1.0051", "1.25",
                 "1.35", "2.5", "4.5", "4.9999", "5.0001", "7.77", "8.5",
                 "9.05", "9.45", "9.9", "9.94", "9.9499", "9.9501", "9.96",
                 "9.985", "9.9949", "9.9951", "9.99949", "9.99951",
                 "9.999995", "9.9999995", "9.99999995", "9.999999995"]
    return base


def lattice(tier, seed):
    ems, xms = _err_mantissas(tier), _x_mantissas(tier)
    ds = range(-12, 13)
    if tier == "quick":
        xes = [-288, -100, -5, -2, -1, 0, 1, 2, 3, 5, 100, 287, 297, 300]
    else:
        xes = [-288, -100, -17, -5, -4, -3, -2, -1, 0, 1, 2, 3, 4, 5, 16,
               100, 287, 296, 297, 299, 300]
    for sign, xm, xe, em, d in itertools.product(("", "-"), xms, xes, ems, ds):
        ee = max(-300, min(308, xe + d))
        yield {"x": float(f"{sign}{xm}e{xe}"),
               "err": min(float(f"{em}e{ee}"), FMAX)}
    for em, ee in itertools.product(ems, range(-300, 300, 7)):
        yield {"x": 0.0, "err": float(f"{em}e{ee}")}
    # an exact zero with sub-normal errors (every one of the smallest)
    for k in list(range(1, 120)) + [2 ** j for j in range(7, 52, 3)]:
        yield {"x": 0.0, "err": k * 5e-324}


# ------------------------------------------------------------------- atheris

def atheris_phase(rec, tier, sseed, shard, nshards):
    runs = {"quick": 60000, "thorough": 400000}[tier]
    vt = "/opt/veriftools/pyvenv/bin/python"
    if not os.path.exists(vt):
        raise core.HarnessError("tooling interpreter for atheris not found")
    with core.scratch("xv-ath-") as d:
        corpus = os.path.join(d, "corpus")
        os.makedirs(corpus)
        if shard % 2:        # half of the shards start from a small corpus
            import struct
            for i, (x, e) in enumerate([(0.1542412, 0.0626653),
                                        (-128124123097.0, 6424.0),
                                        (99.9, 9.96), (1.0, 0.1)]):
                with open(os.path.join(corpus, f"s{i}"), "wb") as f:
                    f.write(struct.pack("<dd", x, e))
        out = os.path.join(d, "stats.json")
        env = dict(os.environ, XV_FUZZ_OUT=out, VERIF_REPO=core.REPO,
                   PYTHONPATH=core.VERIF)
        p = subprocess.run(
            [vt, os.path.join(core.VERIF, "xv", "fuzz_c20.py"), corpus,
             f"-runs={runs}", f"-seed={sseed % (2**31 - 1) + 1}",
             "-max_len=24", "-print_final_stats=0"],
            env=env, cwd=d, capture_output=True, text=True)
        if not os.path.exists(out):
            raise core.HarnessError(
                "atheris target wrote no statistics:\n" + p.stderr[-2000:])
        stats = json.load(open(out))
    rec.stats.evaluations += stats["evaluations"]
    rec.stats.nontrivial += stats["nontrivial"]
    rec.stats.classes["atheris-exec"] = stats["evaluations"]
    rec.stats.notes["atheris_execs"] = stats["evaluations"]
    if stats.get("sample"):
        rec.stats.samples.setdefault("atheris", stats["sample"])
    if stats.get("failure"):
        f = stats["failure"]
        case = {"x": f["x"], "err": f["err"]}
        # re-decide with the in-process function (the replayable unit)
        try:
            run_case(case)
        except PropertyViolation as e:
            if e.key in rec.open_known:
                rec.stats.known[e.key] = rec.stats.known.get(e.key, 0) + 1
            else:
                core._record_violation(ID, PHASES[2], rec, case, e, False)


PHASES = [
    Phase("hyp", run_case, strategy=strategy, classes=classes,
          examples={"quick": 24000, "thorough": 1000000}),
    Phase("lattice", run_case, enumerate=lattice, classes=None,
          distinct_by_construction=True,
          exhaustive={"quick": True, "thorough": True}),
    Phase("atheris", run_case, custom=atheris_phase,
          distinct_by_construction=True,
          shards={"quick": 4, "thorough": 16}),
]
