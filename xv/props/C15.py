"""C15 - sampling only ever appends correct rows (model-based histories)."""
import os
import functools

import numpy as np
from hypothesis import strategies as st

from .. import core, models, crops, labelled
from ..core import Phase, under_test, require

ID = "C15"
LEVEL = "exploration"
RULE = (
    "histories (1-6 runs) on one data file of sample_combos(n, combos "
    "override, shuffle) and sow_samples/grow/reap crop runs (batch size / "
    "count, grow order) with n = 1..8, arguments drawn from choice lists or "
    "from a harness callable that logs what it returned or all fixed as "
    "runner constants (no sampled argument at all); a function that is "
    "undefined (NaN in every output) on every second or third setting; "
    "runner constants, "
    "engine pickle / csv, file names with a compression suffix (.gz / .bz2), a FRESH Sampler object on the same file between "
    "any two runs, and a second long-lived (rival) Sampler taking turns with "
    "the first; numpy.random seeded from the case.  Oracle after each run: "
    "len(full_df) grew by exactly n; the earlier rows are unchanged "
    "(column-wise); every new row's arguments are among the allowed choices "
    "(or exactly what the callable returned, in order) and its outputs equal "
    "f(that row's arguments) recomputed by the harness; last_df holds the n "
    "new rows; load_df(data_name) equals full_df; a new Sampler's full_df "
    "equals the previous one's.  Non-trivial = >=2 runs with a new session or "
    "a crop-based run in between."
)
ASSUMPTIONS = [
    "n >= 1 (sample_combos(0) is a listed finding: the empty case list is "
    "taken for 'no cases' and the function is called once with no arguments)",
    "csv: values compared after the documented dtype widening (numbers by "
    "value, everything else by str)",
]

GEN_LOG = []


def scripted(values, tag):
    """A callable 'distribution': returns the next scripted value and logs."""
    state = {"i": 0}

    def gen():
        v = values[state["i"] % len(values)]
        state["i"] += 1
        GEN_LOG.append((tag, v))
        return v
    return gen


def xyz():
    return core.import_target()


def rows_of(df, cols=None):
    cols = sorted(df.columns) if cols is None else cols
    out = []
    for i in range(len(df)):
        r = df.iloc[i]
        out.append(tuple(_norm(r[c]) for c in cols))
    return out


def _norm(v):
    v = models.plain(v)
    if isinstance(v, float) and v != v:
        return "nan"
    if isinstance(v, (int, float)):
        return float(v)
    return str(v)


def run_case(case):
    x = xyz()
    engine = case["engine"]
    spec = {"vars": [["out", []], ["E", []]], "sizes": {}, "ret": "tuple",
            "log": None}
    if case.get("nan_mod"):
        # the function is undefined (NaN for every output) at some settings:
        # such samples are rows like any other
        spec["nan_mod"] = case["nan_mod"]
    consts = dict(case["constants"])
    A, Bv = case["a"], case["b"]
    fixed = case.get("fixed")
    if fixed:
        # repeated trials at fixed parameters: every argument is a constant
        # of the runner, nothing is sampled
        A, Bv = A[:1], Bv[:1]
        consts.update({"n": A[0], "k": Bv[0]})
    b_callable = case["b_callable"] and not fixed
    sessions = crop_runs = 0
    with core.scratch("xv-c15-") as root:
        # (pandas compresses / decompresses according to the suffix)
        data_name = os.path.join(root, "samples." +
                                 ("csv" if engine == "csv" else "pkl") +
                                 (case.get("compress") or ""))

        def new_sampler():
            fn = labelled.make_fn(spec)
            r = x.Runner(fn, ("out", "E"), constants=consts or None)
            # ("n" before "k": the sower must not reorder them)
            dc = {"n": list(A),
                  "k": scripted(Bv, "b") if b_callable else list(Bv)}
            if fixed:
                dc = {"none": None, "dict": {}, "tuple": ()}[fixed]
            return x.Sampler(r, data_name=data_name, default_combos=dc,
                             engine=engine)

        np.random.seed(case["np_seed"])
        s = new_sampler()
        main_s, rival_s = s, None
        prev_rows, prev_cols = [], None
        if case.get("init_rows") and not fixed:
            # the first sampler starts from a table handed to its constructor
            # (held in memory: there is no file yet)
            import pandas as pd
            recs = []
            for i_ in range(case["init_rows"]):
                kw_ = {"n": A[i_ % len(A)], "k": Bv[i_ % len(Bv)]}
                row_ = dict(kw_, **consts)
                full_kw = dict(kw_, **consts)
                for j_, nm_ in enumerate(("out", "E")):
                    row_[nm_] = float("nan") if labelled.undefined_at(
                        spec, full_kw) else labelled.var_value(full_kw, j_, ())
                recs.append(row_)
            init_df = pd.DataFrame(recs)
            r0 = x.Runner(labelled.make_fn(spec), ("out", "E"),
                          constants=consts or None)
            s = main_s = x.Sampler(
                r0, data_name=data_name, engine=engine, full_df=init_df,
                default_combos={"n": list(A),
                                "k": scripted(Bv, "b") if b_callable
                                else list(Bv)})
            prev_cols = sorted(init_df.columns)
            prev_rows = rows_of(init_df, prev_cols)
        mem_only = bool(case.get("init_rows")) and not fixed
        for k, op in enumerate(case["ops"]):
            o = op["op"]
            tag = f"run{k}:{o}"
            if mem_only:
                # until the first run has written the file, the table handed
                # to the constructor lives in that one object only
                if o == "session":
                    continue
                op = dict(op, rival=False)
            if o != "session" and op.get("rival") and prev_cols is not None:
                # two long-lived samplers take turns on the same file
                if rival_s is None:
                    rival_s = new_sampler()
                s = rival_s
                tag += "(rival)"
            elif o != "session":
                s = main_s
            if o == "session":
                s = main_s = new_sampler()
                sessions += 1
                if prev_cols is not None and op.get("peek", True):
                    with under_test("new session full_df"):
                        fd = s.full_df
                    require(fd is not None and
                            rows_of(fd, prev_cols) == prev_rows,
                            "new-session-differs",
                            f"{tag}: a new Sampler on the same file does not "
                            f"see the {len(prev_rows)} earlier rows")
                continue
            n = op["n"]
            override = None
            allowed_a = list(A)
            if op.get("override_a") and not fixed:
                # choices that are NOT among the defaults, so that a later
                # run without override can be told apart
                allowed_a = sorted({1000 + i for i in op["override_a"]})
                override = {"n": allowed_a}
            del GEN_LOG[:]
            models.LOG.clear()
            if o == "sample":
                kw = {}
                if op.get("shuffle"):
                    kw["shuffle"] = op["shuffle"]
                with under_test(tag):
                    last = s.sample_combos(n, combos=override, verbosity=0,
                                           **kw)
            else:
                crop_runs += 1
                bkw = {op["batch"][0]: op["batch"][1]} if op.get("batch") \
                    else {}
                with under_test(tag):
                    crop = s.Crop(name="c15", parent_dir=root, **bkw)
                    crop.sow_samples(n, combos=override, verbosity=0)
                    B = len(crops.batch_ids(root, "c15"))
                    for i in op["order"]:
                        crop.grow(i % B + 1)
                    crop.grow_missing()
                    last = crop.reap()
            gen_b = [v for t, v in GEN_LOG if t == "b"]
            with under_test("full_df"):
                full = s.full_df
            require(full is not None, "no-full-df", tag)
            old = len(prev_rows)
            require(len(full) == old + n, "row-count",
                    f"{tag}: full_df has {len(full)} rows, expected "
                    f"{old} + {n}")
            cols = sorted(full.columns)
            if prev_cols is not None:
                require(cols == prev_cols, "columns-changed",
                        f"{tag}: {cols} vs {prev_cols}")
                require(rows_of(full.iloc[:old], cols) == prev_rows,
                        "earlier-rows-changed",
                        lambda: f"{tag}: the first {old} rows were "
                                f"{prev_rows!r:.300}, now "
                                f"{rows_of(full.iloc[:old], cols)!r:.300}")
            new = full.iloc[old:]
            # each new row: allowed arguments, outputs of those arguments
            bs = []
            for i in range(len(new)):
                r = new.iloc[i]
                a, b = models.plain(r["n"]), models.plain(r["k"])
                bs.append(b)
                require(a in allowed_a, "argument-outside-choices",
                        f"{tag}: n={a!r} not in {allowed_a}")
                if not b_callable:
                    require(b in Bv, "argument-outside-choices",
                            f"{tag}: k={b!r} not in {Bv}")
                kwargs = {"n": a, "k": b, **consts}
                for j, nm in enumerate(("out", "E")):
                    want = labelled.var_value(kwargs, j, ())
                    if labelled.undefined_at(spec, kwargs):
                        require(float(r[nm]) != float(r[nm]),
                                "row-mispaired",
                                f"{tag}: row a={a!r} b={b!r} has {nm}="
                                f"{r[nm]!r}, f gives NaN there")
                        continue
                    require(float(r[nm]) == want, "row-mispaired",
                            f"{tag}: row a={a!r} b={b!r} has {nm}={r[nm]!r},"
                            f" f gives {want!r}")
            if b_callable:
                require(sorted(map(str, bs)) == sorted(map(str, gen_b)),
                        "not-the-generated-values",
                        f"{tag}: rows carry b={bs}, the generator returned "
                        f"{gen_b}")
            if o == "sample":      # (a crop may grow a batch repeatedly)
                require(len(models.LOG) == n, "call-count",
                        f"{tag}: {len(models.LOG)} evaluations for n={n}")
            with under_test("last_df"):
                ld = s.last_df
            require(ld is not None and rows_of(ld, cols) ==
                    rows_of(new, cols), "last_df",
                    f"{tag}: last_df is not the {n} new rows")
            with under_test("load_df"):
                on_disk = x.load_df(data_name, engine=engine)
            require(rows_of(on_disk, cols) == rows_of(full, cols),
                    "disk-differs-from-memory",
                    lambda: f"{tag}: load_df gives "
                            f"{rows_of(on_disk, cols)!r:.300}, full_df "
                            f"{rows_of(full, cols)!r:.300}")
            prev_rows, prev_cols = rows_of(full, cols), cols
            mem_only = False
    runs = sum(1 for op in case["ops"] if op["op"] != "session")
    return {"nontrivial": runs >= 2 and (sessions > 0 or crop_runs > 0),
            "classes": [f"engine={engine}",
                        "fixed-parameters" if fixed else
                        "callable" if b_callable else "choices",
                        "crop-run" if crop_runs else "direct-only",
                        "new-session" if sessions else "one-session"],
            "notes": {"runs": runs}}


def tuple_value(n, k):
    m = models.kw_number({"n": n, "k": k}, salt=21)
    return tuple(float((m >> (8 * i)) % 251) for i in range(m % 3))


def tuple_fn(n, k):
    """ONE output whose value is a tuple of varying length (0, 1 or 2) -
    divisors found, roots, a shape ..."""
    models.LOG.append({"n": n, "k": k})
    return tuple_value(n, k)


def run_tuple(case):
    x = xyz()
    A, Bv = case["a"], case["b"]
    with core.scratch("xv-c15t-") as root:
        data_name = os.path.join(root, "t.pkl")
        np.random.seed(case["np_seed"])
        s = x.Sampler(x.Runner(tuple_fn, "found"), data_name=data_name,
                      default_combos={"n": list(A), "k": list(Bv)})
        total = 0
        lens = set()
        for k_, op in enumerate(case["ops"]):
            n = op["n"]
            with under_test(f"run{k_}:{op['op']}"):
                if op["op"] == "sample":
                    s.sample_combos(n, verbosity=0)
                else:
                    crop = s.Crop(name="c15t", parent_dir=root,
                                  batchsize=op.get("bs", 2))
                    crop.sow_samples(n, verbosity=0)
                    crop.grow_missing()
                    crop.reap()
                full = s.full_df
            total += n
            require(len(full) == total, "row-count",
                    f"run{k_}: {len(full)} rows, expected {total}")
            for i in range(len(full)):
                r = full.iloc[i]
                want = tuple_value(models.plain(r["n"]), r["k"])
                got = r["found"]
                lens.add(len(want))
                require(isinstance(got, tuple) and got == want,
                        "row-mispaired",
                        f"run{k_}: row n={r['n']!r} k={r['k']!r} holds "
                        f"found={got!r}; the function returns {want!r} there")
            with under_test("load_df"):
                disk = x.load_df(data_name)
            require(len(disk) == total and
                    [tuple(v) if isinstance(v, tuple) else v
                     for v in disk["found"]] == list(full["found"]),
                    "disk-differs-from-memory", f"run{k_}")
    return {"nontrivial": 1 in lens and len(lens) > 1,
            "classes": ["tuple-valued-output"]}


@st.composite
def tuple_strategy(draw):
    op = st.fixed_dictionaries({"op": st.sampled_from(["sample", "crop"]),
                                "n": st.integers(1, 6),
                                "bs": st.integers(1, 3)})
    return {"a": draw(st.lists(st.integers(0, 30), min_size=2, max_size=5,
                               unique=True)),
            "b": draw(st.lists(st.sampled_from(["p", "q", "r"]), min_size=1,
                               max_size=3, unique=True)),
            "np_seed": draw(st.integers(0, 2**31)),
            "ops": draw(st.lists(op, min_size=1, max_size=4))}


def run_n0(case):
    """Directed probe for the listed finding: sample_combos(0)."""
    x = xyz()
    spec = {"vars": [["out", []], ["E", []]], "sizes": {}, "ret": "tuple",
            "log": None}
    with core.scratch("xv-c15z-") as root:
        r = x.Runner(labelled.make_fn(spec), ("out", "E"))
        s = x.Sampler(r, data_name=os.path.join(root, "s.pkl"),
                      default_combos={"n": [1, 2], "k": ["p"]})
        s.sample_combos(2, verbosity=0)
        models.LOG.clear()
        with under_test("sample_combos(0)"):
            s.sample_combos(0, verbosity=0)
        if len(s.full_df) != 2 or models.LOG:
            core.violated("n0-run-evaluates-and-appends",
                          f"sample_combos(0): {len(models.LOG)} evaluation(s)"
                          f", full_df went from 2 to {len(s.full_df)} rows")
    return {"nontrivial": True}


# ----------------------------------------------------------------- strategy

@st.composite
def strategy(draw):
    A = draw(st.lists(st.integers(-5, 20), min_size=1, max_size=4,
                      unique=True))
    Bv = draw(st.lists(st.sampled_from(["p", "q", "r", "zz", " sp", "t ",
                                        "two words"]), min_size=1,
                       max_size=3, unique=True))
    run = st.one_of(
        st.fixed_dictionaries({
            "op": st.just("sample"), "n": st.integers(1, 8),
            "override_a": st.none() | st.lists(st.integers(0, 9), min_size=1,
                                               max_size=2),
            "shuffle": st.sampled_from([False, False, True, 5]),
            "rival": st.sampled_from([False, False, True])}),
        st.fixed_dictionaries({
            "op": st.just("crop"), "n": st.integers(1, 8),
            "override_a": st.none() | st.lists(st.integers(0, 9), min_size=1,
                                               max_size=2),
            "batch": st.none() | st.tuples(
                st.sampled_from(["batchsize", "num_batches"]),
                st.integers(1, 5)).map(list),
            "order": st.lists(st.integers(0, 9), max_size=3),
            "rival": st.sampled_from([False, False, True])}),
    )
    ops = draw(st.lists(st.one_of(run, run, st.fixed_dictionaries(
        {"op": st.just("session"), "peek": st.booleans()})),
                        min_size=1, max_size=6))
    return {"a": A, "b": Bv, "b_callable": draw(st.booleans()),
            "constants": draw(st.sampled_from([{}, {"p": 3}, {"q": "u"}])),
            "engine": draw(st.sampled_from(["pickle", "csv"])),
            "nan_mod": draw(st.sampled_from([None, None, 2, 3])),
            "init_rows": draw(st.sampled_from([0, 0, 0, 2, 3])),
            "compress": draw(st.sampled_from([None, None, None, ".gz",
                                              ".bz2"])),
            "fixed": draw(st.sampled_from([None, None, None, None, "none",
                                           "dict", "tuple"])),
            "np_seed": draw(st.integers(0, 2**31)), "ops": ops}


PHASES = [
    Phase("histories", run_case, strategy=strategy,
          examples={"quick": 1600, "thorough": 60000}),
    Phase("tuple-output", run_tuple, strategy=tuple_strategy,
          examples={"quick": 200, "thorough": 5000}),
    Phase("n0", run_n0, enumerate=lambda tier, seed: [], tiers=()),
]
