"""C09 - a partial reap shows finished batches exactly and everything else as
missing (exhaustive over subsets of finished batches)."""
import os
import itertools

import numpy as np

from .. import core, models, crops, labelled
from ..core import Phase, under_test, require

ID = "C09"
LEVEL = "exploration"
RULE = (
    "exhaustive over subsets: crops with B = 2..5 batches (quick; thorough "
    "2..7, quick adds a seeded sample of B = 6, 7), for each B every N giving "
    "every remainder via num_batches=B (N = B..2B-1) and batch sizes 2 and 3 "
    "with and without a short last batch, ALL 2^B-2 non-empty proper subsets "
    "of finished batches, x shuffle {False, True} x realisation (1-D grid, "
    "2-D grid, case list) x reap mode/result kind in {raw int, raw ndarray, "
    "raw bool, raw str, raw tuple, raw tuples holding int / bool / str "
    "ndarrays, raw 2-D int ndarray, Runner-Dataset with 2 variables, "
    "Runner-Dataset with an internal dimension, Dataset-valued function (with text variables and auxiliary coordinates), "
    "DataFrame, DataFrame of a Sampler crop}.  Oracle: which setting lives in which batch is read from the "
    "batch files; every position of a finished batch equals the direct run, "
    "every other position satisfies the missing-placeholder predicate (C02); "
    "the crop directory is byte-identical after the partial reap; reap() "
    "without allow_incomplete raises XYZError and changes nothing; growing "
    "the rest and reaping gives exactly the direct run; for 1-D raw crops a "
    "second crop is then sown at the same place with a larger batch size, "
    "partly grown and partially reaped (its placeholders must follow ITS "
    "batches); the Dataset-valued function also returns scalar and auxiliary "
    "coordinates in half of its cases.  Non-trivial = "
    "remainder != 0 (or a short last batch) and a missing batch whose size "
    "differs from the plain batch size.  Distinct by construction."
)
ASSUMPTIONS = [
    "raw reaps nest the arguments in name-sorted order (sow_combos sorts them "
    "by design); the direct run used as reference is given the same order",
]

MODES = ["raw-int", "raw-ndarray", "raw-bool", "raw-str", "raw-tuple2",
         "raw-tuple_intarr", "raw-intarr2d", "raw-tuple_strarr",
         "raw-tuple_empty",
         "ds-2vars", "ds-internal", "ds-xobj", "df", "sampler-df",
         "ds-strvar"]


PARENTS = ["xyz-result-3.jbdmp", "batches", "xyz-batch-2.jbdmp.d"]


def xyz():
    return core.import_target()


def inputs(case):
    N, real = case["N"], case["real"]
    if real == "grid2" and N >= 4:
        f = next((f for f in crops.factorisations(N) if len(f) == 2), None)
        if f:
            g = crops.grid_from_shape(f)
            return {a: v for a, v in g}, None, None
    if real == "cases":
        return None, [(i, f"s{i % 4}") for i in range(N)], ("n", "k")
    return {"a": list(range(100, 100 + N))}, None, None


def sampled_value(a, b):
    return float(models.kw_number({"a": a, "b": b}, salt=11) % 4096)


def sampled_fn(a, b):
    return sampled_value(a, b)


def run_sampler(case):
    """Partial reap of a Sampler crop (one output column): one row per sown
    sample - the function's value where the batch is finished, a missing
    value where it is not - and nothing deleted."""
    x = xyz()
    N, spec, finished = case["N"], case["spec"], case["finished"]
    with core.scratch("xv-c09s-") as root:
        r = x.Runner(sampled_fn, "y")
        s = x.Sampler(r, data_name=os.path.join(root, "s.pkl"),
                      default_combos={"a": [1, 2, 3, 4, 5],
                                      "b": ["p", "q", "r"]})
        np.random.seed(case["N"] * 31 + len(finished))
        with under_test("sow samples / grow subset"):
            crop = s.Crop(name="c9", parent_dir=root, **{spec[0]: spec[1]})
            crop.sow_samples(N, verbosity=0)
            B = len(crops.batch_ids(root, "c9"))
            require(B == case["B"], "harness-batch-count", f"B={B}")
            sown = {i: [(models.plain(kw["a"]), kw["b"]) for kw in
                        crops.read_batch(root, "c9", i)]
                    for i in range(1, B + 1)}
            crop.grow(tuple(finished), verbosity=0)
        cdir = crops.crop_dir(root, "c9")
        digest0 = crops.tree_digest(cdir)
        with under_test("reap(allow_incomplete=True) of a Sampler crop"):
            part = crop.reap(allow_incomplete=True)
        require(os.path.isdir(cdir) and crops.tree_digest(cdir) == digest0,
                "partial-reap-changed-crop", "crop directory changed")
        require(len(part) == N, "row-count",
                f"{len(part)} rows for {N} sown samples (finished batches "
                f"{finished} of {B})")
        import collections
        want_fin = collections.Counter(
            ab for i in finished for ab in sown[i])
        want_un = collections.Counter(
            ab for i in sown if i not in finished for ab in sown[i])
        got_fin, got_un = collections.Counter(), collections.Counter()
        for k in range(len(part)):
            row = part.iloc[k]
            ab = (models.plain(row["a"]), row["b"])
            if models.all_null(row["y"]):
                got_un[ab] += 1
            else:
                require(float(row["y"]) == sampled_value(*ab),
                        "finished-row-wrong",
                        f"row {ab}: y={row['y']!r}, f gives "
                        f"{sampled_value(*ab)}")
                got_fin[ab] += 1
        require(got_fin == want_fin and got_un == want_un,
                "rows-not-the-samples",
                lambda: f"finished rows {dict(got_fin)} (sown in finished "
                        f"batches: {dict(want_fin)}); missing rows "
                        f"{dict(got_un)} (sown in other batches: "
                        f"{dict(want_un)})")
    sizes = {i: len(v) for i, v in sown.items()}
    return {"nontrivial": len(set(sizes.values())) > 1,
            "classes": ["mode=sampler-df", f"B={B}"]}


def run_case(case):
    cwd0 = os.getcwd()
    try:
        return _run_case(case)
    finally:
        os.chdir(cwd0)


def _run_case(case):
    if case["mode"] == "sampler-df":
        return run_sampler(case)
    x = xyz()
    from xyzpy.utils import XYZError
    mode = case["mode"]
    spec = case["spec"]
    finished = case["finished"]
    combos, cases, fn_args = inputs(case)
    raw = mode.startswith("raw")
    with core.scratch("xv-c09-") as root:
        if case.get("parent"):
            # the crop lives in a folder whose name resembles the library's
            # own files: where a crop is kept must not matter
            root = os.path.join(root, case["parent"])
            os.makedirs(root)
        # ---------------- set up function / farmer
        if raw:
            kind = mode.split("-", 1)[1]
            fn = crops.record(kind, None)
            runner = None
            mk = lambda: x.Crop(fn=fn, name="c9", parent_dir=root,
                                **{spec[0]: spec[1]})
        else:
            if mode == "ds-2vars":
                lspec = {"vars": [["out", []], ["E", []]], "sizes": {},
                         "ret": "tuple"}
            elif mode == "ds-strvar":
                # a text-valued scalar next to a number, returned as a tuple
                lspec = {"vars": [["out", []], ["E", []]], "sizes": {},
                         "ret": "tuple", "str_var": 1}
            elif mode == "ds-internal":
                lspec = {"vars": [["out", ["t"]], ["E", []]],
                         "sizes": {"t": 2}, "ret": "tuple"}
            elif mode == "ds-xobj":
                lspec = {"vars": [["out", ["t"]], ["E", []]],
                         "sizes": {"t": 2}, "ret": "dataset"}
                if case["N"] % 2:
                    # the function's Dataset also carries a scalar and an
                    # auxiliary (non-index) coordinate
                    lspec["aux_coords"] = True
                if case["N"] % 3 != 1:
                    lspec["str_vars"] = True
            else:
                lspec = {"vars": [["out", []], ["E", []]], "sizes": {},
                         "ret": "tuple"}
            lspec["log"] = None
            fn = labelled.make_fn(lspec)
            xobj = lspec["ret"] == "dataset"
            names = None if xobj else tuple(n for n, _ in lspec["vars"])
            var_dims = None if xobj else {n: tuple(d) for n, d in
                                          lspec["vars"]}
            var_coords = None if xobj else {
                d: labelled.INTERNAL_DIMS[d][:n]
                for d, n in lspec["sizes"].items()}
            runner = x.Runner(fn, names, fn_args=fn_args, var_dims=var_dims,
                              var_coords=var_coords)
            mk = lambda: runner.Crop(name="c9", parent_dir=root,
                                     **{spec[0]: spec[1]})
        # ---------------- sow and grow the finished subset
        with under_test("sow"):
            crop = mk()
            if cases is None:
                crop.sow_combos(combos, shuffle=case["shuffle"], verbosity=0)
            else:
                crop.sow_cases(fn_args, cases, verbosity=0)
        B = len(crops.batch_ids(root, "c9"))
        require(B == case["B"], "harness-batch-count",
                f"B={B}, planned {case['B']}")
        where = {}
        bsizes = {}
        for i in range(1, B + 1):
            b = crops.read_batch(root, "c9", i)
            bsizes[i] = len(b)
            for kw in b:
                where[models.canon_kw(kw)] = i
        with under_test("grow subset"):
            crop.grow(tuple(finished), verbosity=0)
        cdir = crops.crop_dir(root, "c9")
        digest0 = crops.tree_digest(cdir)

        # ---------------- refused without allow_incomplete
        try:
            with under_test("reap() on incomplete crop", expect=(XYZError,)):
                crop.reap()
            core.violated("incomplete-reap-not-refused",
                          f"reap() returned with finished={finished} of {B}")
        except XYZError:
            pass
        require(crops.tree_digest(cdir) == digest0,
                "refused-reap-changed-crop", "crop directory changed")

        # ---------------- the partial reap
        with under_test("reap(allow_incomplete=True)"):
            if mode == "df":
                part = crop.reap_combos_to_ds(
                    var_names=names, allow_incomplete=True, to_df=True)
            else:
                part = crop.reap(allow_incomplete=True)
        require(os.path.isdir(cdir) and crops.tree_digest(cdir) == digest0,
                "partial-reap-changed-crop",
                "crop directory differs after reap(allow_incomplete=True)")

        fin = set(finished)
        if cases is None:
            names_sorted = sorted(combos)
            vals = [combos[a] for a in names_sorted]
            locs = list(itertools.product(*vals))
            largs = names_sorted
        else:
            largs = list(fn_args)
            locs = [tuple(c) for c in cases]
        is_fin = {}
        for loc in locs:
            kw = dict(zip(largs, loc))
            is_fin[loc] = where[models.canon_kw(kw)] in fin

        if raw:
            example = models.result_of(kind, dict(zip(largs, locs[0])))

            def check_cell(got, loc):
                if is_fin[loc]:
                    want = models.result_of(kind, dict(zip(largs, loc)))
                    require(models.deep_eq(got, want), "finished-cell-wrong",
                            lambda: f"at {loc}: got {got!r:.200} expected "
                                    f"{want!r:.200}")
                else:
                    prob = models.placeholder_problem(got, example)
                    require(prob is None, "unfinished-cell-not-missing",
                            lambda: f"at {loc} (batch "
                                    f"{where[models.canon_kw(dict(zip(largs, loc)))]}"
                                    f" not grown): {prob}; got {got!r:.200}")
            if cases is None:
                def walk(node, vs, prefix):
                    if not vs:
                        return check_cell(node, prefix)
                    require(isinstance(node, tuple) and
                            len(node) == len(vs[0]), "grid-shape",
                            f"at {prefix}: {node!r:.200}")
                    for sub, v in zip(node, vs[0]):
                        walk(sub, vs[1:], prefix + (v,))
                walk(part, vals, ())
            else:
                # reaping cases gives the nested union grid
                coords = [sorted(set(c[i] for c in cases))
                          for i in range(len(largs))]
                req = {tuple(c) for c in cases}
                ex2 = example

                def walk(node, vs, prefix):
                    if not vs:
                        if prefix in req:
                            return check_cell(node, prefix)
                        prob = models.placeholder_problem(node, ex2)
                        require(prob is None, "unrequested-cell-not-missing",
                                lambda: f"at {prefix}: {prob}")
                        return
                    require(isinstance(node, tuple) and
                            len(node) == len(vs[0]), "grid-shape",
                            f"at {prefix}: {node!r:.200}")
                    for sub, v in zip(node, vs[0]):
                        walk(sub, vs[1:], prefix + (v,))
                walk(part, coords, ())
        elif mode == "df":
            _check_df(part, lspec, largs, locs, is_fin)
        else:
            coords = ({a: combos[a] for a in largs} if cases is None else
                      {a: sorted(set(c[i] for c in cases))
                       for i, a in enumerate(largs)})
            requested = {tuple(models.plain(v) for v in loc)
                         for loc in locs if is_fin[loc]}
            labelled.check_dataset(
                part, spec=lspec, fn_args=largs, coords=coords,
                requested=requested, fn_kwargs_extra={}, constants={},
                resources={}, attrs={}, var_coords=var_coords,
                explicit_names=not xobj, tag="partial")
            if lspec.get("str_vars"):
                # the text variables: the function's text where finished, a
                # null (not the string 'nan') elsewhere
                for loc in locs:
                    kw_ = dict(zip(largs, loc))
                    for nm_ in ("tag", "lab"):
                        got_ = np.asarray(part[nm_].sel(kw_).values,
                                          dtype=object).ravel().tolist()
                        if is_fin[loc]:
                            want_ = [labelled.text_value(kw_)] \
                                if nm_ == "tag" else \
                                [labelled.text_value(kw_) + "-%d" % i
                                 for i in range(len(got_))]
                            require(got_ == want_, "finished-cell-wrong",
                                    f"{nm_} at {kw_}: {got_!r}, the function "
                                    f"returned {want_!r}")
                        else:
                            require(all(models.all_null(g) for g in got_),
                                    "unfinished-cell-not-missing",
                                    f"{nm_} at {kw_} (batch not grown): "
                                    f"{got_!r} is not a missing value")

        # ---------------- somebody else grows one more batch; a second
        # partial reap on the SAME crop object must see it
        still = [i for i in range(1, B + 1) if i not in fin]
        if len(still) >= 2 and raw:
            extra_id = still[case.get("extra_pick", 0) % len(still)]
            with under_test("grow one more batch through another object"):
                other = x.Crop(name="c9", parent_dir=root)
                x.grow(extra_id, crop=other, verbosity=0)
            fin2 = fin | {extra_id}
            with under_test("second reap(allow_incomplete=True)"):
                part2 = crop.reap(allow_incomplete=True)
            is_fin2 = {loc: where[models.canon_kw(dict(zip(largs, loc)))]
                       in fin2 for loc in locs}

            def check_cell2(got, loc):
                if is_fin2[loc]:
                    want = models.result_of(kind, dict(zip(largs, loc)))
                    require(models.deep_eq(got, want),
                            "second-partial-reap-stale",
                            lambda: f"at {loc} (batch grown meanwhile): got "
                                    f"{got!r:.200} expected {want!r:.200}")
                else:
                    prob = models.placeholder_problem(got, example)
                    require(prob is None, "unfinished-cell-not-missing",
                            lambda: f"second partial reap at {loc}: {prob}")
            if cases is None:
                def walk2(node, vs, prefix):
                    if not vs:
                        return check_cell2(node, prefix)
                    for sub, v in zip(node, vs[0]):
                        walk2(sub, vs[1:], prefix + (v,))
                walk2(part2, vals, ())

        # ---------------- grow the rest: the full reap is exact
        with under_test("grow_missing + reap"):
            crop2 = x.Crop(name="c9", parent_dir=root) if raw else crop
            if raw and case.get("via_load_crops"):
                # the crops of a directory, found by looking into it; the
                # user then moves on to another directory
                away = os.path.join(root, "elsewhere")
                os.makedirs(away, exist_ok=True)
                if case["via_load_crops"] == "cwd":
                    os.chdir(root)
                    crop2 = x.load_crops()["c9"]
                    os.chdir(away)
                else:
                    os.chdir(away)
                    crop2 = x.load_crops(root)["c9"]
            crop2.grow_missing(verbosity=0)
            if mode == "df":
                full = crop2.reap_combos_to_ds(var_names=names, to_df=True)
            else:
                full = crop2.reap()
        all_fin = {loc: True for loc in locs}
        if raw:
            with under_test("direct"):
                if cases is None:
                    direct = x.combo_runner(
                        fn, {a: combos[a] for a in sorted(combos)},
                        verbosity=0)
                else:
                    direct = x.combo_runner(
                        fn, cases=[dict(zip(fn_args, c)) for c in cases],
                        verbosity=0)
            require(models.deep_eq(full, direct), "full-reap-differs",
                    lambda: f"full reap {full!r:.300} vs direct "
                            f"{direct!r:.300}")
        elif mode == "df":
            _check_df(full, lspec, largs, locs, all_fin)
        else:
            coords = ({a: combos[a] for a in largs} if cases is None else
                      {a: sorted(set(c[i] for c in cases))
                       for i, a in enumerate(largs)})
            labelled.check_dataset(
                full, spec=lspec, fn_args=largs, coords=coords,
                requested={tuple(models.plain(v) for v in loc)
                           for loc in locs},
                fn_kwargs_extra={}, constants={}, resources={}, attrs={},
                var_coords=var_coords, explicit_names=not xobj, tag="full")

        # ---------------- another crop at the same place, same process,
        # batched differently: its partial reap is about ITS batches
        if raw and cases is None and len(combos) == 1 and not case["shuffle"]:
            avals = combos["a"]
            s2 = max(bsizes.values()) + 1
            with under_test("second crop, other batch size"):
                cB = x.Crop(fn=fn, name="c9", parent_dir=root, batchsize=s2)
                cB.sow_combos(combos, verbosity=0)
            B2 = len(crops.batch_ids(root, "c9"))
            fin_b = sorted(i for i in fin if i <= B2) or [1]
            if len(fin_b) < B2:
                where2 = {}
                for i in range(1, B2 + 1):
                    for kw in crops.read_batch(root, "c9", i):
                        where2[models.plain(kw["a"])] = i
                with under_test("second crop: grow subset, partial reap"):
                    cB.grow(tuple(fin_b), verbosity=0)
                    partB = cB.reap(allow_incomplete=True)
                require(isinstance(partB, tuple) and
                        len(partB) == len(avals), "grid-shape",
                        f"second crop: {partB!r:.200}")
                ex_ = models.result_of(kind, {"a": avals[0]})
                for a_, got_ in zip(avals, partB):
                    if where2[a_] in fin_b:
                        want_ = models.result_of(kind, {"a": a_})
                        require(models.deep_eq(got_, want_),
                                "second-crop-finished-cell-wrong",
                                lambda: f"second crop (batchsize {s2}, "
                                        f"finished {fin_b}) at a={a_}: got "
                                        f"{got_!r:.200}, expected "
                                        f"{want_!r:.200}")
                    else:
                        prob = models.placeholder_problem(got_, ex_)
                        require(prob is None,
                                "second-crop-unfinished-cell-not-missing",
                                lambda: f"second crop (batchsize {s2}, "
                                        f"finished {fin_b}) at a={a_} (batch "
                                        f"{where2[a_]} not grown): {prob}; "
                                        f"got {got_!r:.200}")

        # ---------------- re-sow with a changed function, grow one finished
        # batch AGAIN: a partial look and the full reap show the new values
        # there (and the old ones elsewhere)
        if raw and cases is None and len(combos) == 1 and \
                not case["shuffle"] and kind in ("int", "str"):
            kind2 = "str" if kind == "int" else "int"
            fn2 = crops.record(kind2, None)
            avals = combos["a"]
            with under_test("third crop: grow, re-sow, re-grow one batch"):
                cC = x.Crop(fn=fn, name="c9", parent_dir=root,
                            **{spec[0]: spec[1]})
                cC.sow_combos(combos, verbosity=0)
                cC.grow_missing(verbosity=0)
                BC = len(crops.batch_ids(root, "c9"))
                cC2 = x.Crop(fn=fn2, name="c9", parent_dir=root)
                cC2.sow_combos(combos, verbosity=0)
                again = finished[0] % BC + 1
                cC2.grow([again], verbosity=0)
                whereC = {}
                for i in range(1, BC + 1):
                    for kw in crops.read_batch(root, "c9", i):
                        whereC[models.plain(kw["a"])] = i
                fullC = cC2.reap()
            for a_, got_ in zip(avals, fullC):
                want_ = models.result_of(
                    kind2 if whereC[a_] == again else kind, {"a": a_})
                require(models.deep_eq(got_, want_), "regrown-batch-stale",
                        lambda: f"after a re-sow with another function batch "
                                f"{again} was grown again: position a={a_} "
                                f"(batch {whereC[a_]}) holds {got_!r:.100}, "
                                f"expected {want_!r:.100}")

    plain = case["spec"][1] if spec[0] == "batchsize" else case["N"] // B
    odd_missing = any(bsizes[i] != plain for i in range(1, B + 1)
                      if i not in fin)
    uneven = len(set(bsizes.values())) > 1
    return {"nontrivial": uneven and odd_missing,
            "classes": [f"B={B}", f"mode={mode}", f"spec={spec[0]}",
                        f"real={case['real']}", f"shuffle={case['shuffle']}",
                        "uneven" if uneven else "even",
                        "odd-sized-batch-missing" if odd_missing else
                        "plain-batches-missing"]}


def _check_df(df, lspec, largs, locs, is_fin):
    import pandas as pd
    require(isinstance(df, pd.DataFrame), "not-a-dataframe",
            type(df).__name__)
    require(len(df) == len(locs), "row-count",
            f"{len(df)} rows for {len(locs)} settings")
    names = [n for n, _ in lspec["vars"]]
    seen = set()
    for i in range(len(df)):
        row = df.iloc[i]
        loc = tuple(models.plain(row[a]) for a in largs)
        seen.add(loc)
        require(loc in is_fin, "row-for-unknown-setting", str(loc))
        for j, n in enumerate(names):
            got = row[n]
            if is_fin[loc]:
                want = labelled.var_value(dict(zip(largs, loc)), j, ())
                require(float(got) == want, "finished-row-wrong",
                        f"row {loc}: {n}={got!r}, expected {want!r}")
            else:
                require(models.all_null(got), "unfinished-row-not-missing",
                        f"row {loc}: {n}={got!r} but its batch was not grown")
    require(len(seen) == len(locs), "rows-not-the-settings",
            f"{len(seen)} distinct settings in {len(locs)} rows")


def configs(B):
    out = []
    for r in range(B):
        out.append((["num_batches", B], B + r))
    out.append((["batchsize", 2], 2 * B - 1))
    out.append((["batchsize", 2], 2 * B))
    out.append((["batchsize", 3], 3 * B - 2))
    return out


def enumerate_cases(tier, seed):
    import random
    rng = random.Random(seed)
    bmax_full = 5 if tier == "quick" else 7
    counter = 0
    for B in range(2, 8):
        for spec, N in configs(B):
            for mask in range(1, 2 ** B - 1):
                finished = [i + 1 for i in range(B) if mask >> i & 1]
                if B > bmax_full and rng.random() > 0.25:
                    continue
                for shuffle in (False, True):
                    counter += 1
                    nmodes = len(MODES) if (tier == "thorough" and B <= 4) \
                        else (3 if (tier == "thorough" or B <= 5) else 1)
                    for m in range(nmodes):
                        mode = MODES[(counter + m * 4) % len(MODES)]
                        real = ["grid", "grid2", "cases"][
                            (counter // 2 + m) % 3]
                        sh = shuffle if real != "cases" else False
                        yield {"B": B, "N": N, "spec": spec,
                               "finished": finished, "shuffle": sh,
                               "mode": mode, "real": real,
                               "extra_pick": counter % 3,
                               "parent": PARENTS[(counter + m) % 7]
                               if (counter + m) % 7 < len(PARENTS) else None,
                               "via_load_crops": [None, "cwd", None, "dir"][
                                   (counter + m) % 4]}


PHASES = [
    Phase("subsets", run_case, enumerate=enumerate_cases,
          distinct_by_construction=True,
          exhaustive={"quick": False, "thorough": True}),
]
