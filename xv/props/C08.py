"""C08 - reported progress always matches the batches that really finished
(model-based histories)."""
import os
import re
import json
import pickle
import functools
import collections

from hypothesis import strategies as st

from .. import core, models, crops
from ..core import Phase, under_test, require

ID = "C08"
LEVEL = "exploration"
RULE = (
    "histories (<= 12 ops) on crops of 1..8 batches (a fifth of them with "
    "brackets and spaces in the crop name or its directory) over {re-sow same shape, "
    "Crop.grow(ids), xyzpy.grow(i), grow_missing, change the set of settings "
    "on which the function fails and the exception it raises there "
    "(FlakyError / StopIteration / KeyError / ValueError / EOFError, or "
    "a result that cannot be pickled, so that the WRITE fails; side "
    "file read by the function), delete "
    "result i, delete result i AND grow batch j before the next look, corrupt result i (empty / half / garbage / wrong length) + "
    "check_bad, check_bad alone, reload the Crop, query}.  Model = (B, set of "
    "finished ids).  After EVERY op: num_sown_batches == B, num_results == "
    "|finished|, missing_results() == sorted(all - finished), "
    "is_ready_to_reap() == (finished == all), str(crop) shows |finished| / B, "
    "the results directory holds exactly the finished ids; a grow whose "
    "function raised propagates the error and finishes exactly the batches "
    "before the failing one; grow_missing calls the function on exactly the "
    "settings of the missing batches; re-sowing keeps results.  Non-trivial "
    "= the history contains a failed grow or a deletion/corruption, followed "
    "by a query."
)
ASSUMPTIONS = [
    "corrupting a result file is always followed by check_bad in the same op "
    "(an unreadable file that nobody checked is C10's subject)",
]


def xyz():
    return core.import_target()


def run_case(case):
    cwd0 = os.getcwd()
    try:
        return _run_case(case)
    finally:
        os.chdir(cwd0)


def _run_case(case):
    x = xyz()
    N, spec = case["N"], case["spec"]
    kind = case.get("kind", "int")
    stats = collections.Counter()
    with core.scratch("xv-c08-") as root:
        if case.get("odd_path") == "dir":
            # directory and crop names are free text: brackets, spaces ...
            root = os.path.join(root, "sweeps [v2]")
            os.makedirs(root)
        failfile = os.path.join(root, "fail.json")
        fn = functools.partial(models.flaky_fn, _xv=(failfile, kind))
        combos = {"a": list(range(N))}
        name = "run[1]" if case.get("odd_path") == "name" else "c8"

        def sow(crop):
            crop.sow_combos(combos, verbosity=0)

        away = os.path.join(root, "somewhere else")
        os.makedirs(away)

        def make(**kw):
            if not case.get("cwd_crop"):
                return x.Crop(name=name, parent_dir=root, **kw)
            # no parent directory given: the crop lives in the directory the
            # user is in at that moment - and stays there when they move on
            os.chdir(root)
            try:
                return x.Crop(name=name, **kw)
            finally:
                os.chdir(away)

        with under_test("sow"):
            crop = make(fn=fn, **({spec[0]: spec[1]} if spec else {}))
            sow(crop)
        ids = crops.batch_ids(root, name)
        B = len(ids)
        batch_vals = {i: [models.plain(kw["a"]) for kw in
                          crops.read_batch(root, name, i)] for i in ids}
        finished = set()
        failing = set()
        fail_exc = "flaky"
        cur_kind = [kind]
        kind_of = {}
        interesting = False
        checked_after_interesting = False
        qcount = [case.get('qrot', 0)]

        def invariants(tag):
            # the five queries are asked in an order that rotates from step
            # to step, so that none can rely on another having refreshed it
            qs = [("nsb", lambda: crop.num_sown_batches),
                  ("nres", lambda: crop.num_results),
                  ("miss", lambda: crop.missing_results()),
                  ("ready", lambda: crop.is_ready_to_reap()),
                  ("text", lambda: str(crop))]
            rot = qcount[0] % len(qs)
            qcount[0] += 1
            ans = {}
            with under_test(f"progress query after {tag}"):
                for nm, q in qs[rot:] + qs[:rot]:
                    ans[nm] = q()
            nsb, nres, miss = ans["nsb"], ans["nres"], ans["miss"]
            ready, text = ans["ready"], ans["text"]
            allb = set(range(1, B + 1))
            require(nsb == B, "num_sown_batches",
                    f"after {tag}: {nsb}, sown {B}")
            require(nres == len(finished), "num_results",
                    f"after {tag}: num_results={nres}, finished "
                    f"{sorted(finished)}")
            require(tuple(miss) == tuple(sorted(allb - finished)),
                    "missing_results",
                    f"after {tag}: missing_results()={miss}, truly missing "
                    f"{sorted(allb - finished)}")
            require(bool(ready) == (finished == allb), "is_ready_to_reap",
                    f"after {tag}: is_ready_to_reap()={ready} with finished "
                    f"{sorted(finished)} of {B}")
            m = re.search(r"(\d+) / (\d+) batches", text)
            require(m and int(m.group(1)) == len(finished)
                    and int(m.group(2)) == B, "str-progress",
                    f"after {tag}: str(crop) says "
                    f"{m.group(0) if m else text!r}")
            on_disk = crops.result_ids(root, name)
            require(on_disk == sorted(finished), "results-directory",
                    f"after {tag}: result files {on_disk}, model "
                    f"{sorted(finished)}")
            for i in on_disk:
                with open(crops.result_path(root, name, i), "rb") as f:
                    res = pickle.load(f)
                want = tuple(models.result_of(kind_of.get(i, kind), {"a": a})
                             for a in batch_vals[i])
                require(models.deep_eq(res, want), "result-content",
                        f"after {tag}: result {i} holds {res!r:.200}")

        invariants("sow")
        for k, op in enumerate(case["ops"]):
            o = op["op"]
            tag = f"op{k}:{o}"
            stats[o] += 1
            if o == "set_fail":
                failing = {v % N for v in op["vals"]}
                fail_exc = op.get("exc", "flaky")
                with open(failfile, "w") as f:
                    json.dump({"vals": sorted(failing), "exc": fail_exc}, f)
            elif o in ("grow", "grow_one", "grow_missing"):
                if o == "grow":
                    seq = []
                    for i in op["ids"]:
                        i = i % B + 1
                        if i not in seq:
                            seq.append(i)
                elif o == "grow_one":
                    seq = [op["i"] % B + 1]
                else:
                    seq = sorted(set(range(1, B + 1)) - finished)
                if not seq and o != "grow_missing":
                    continue
                # model: batches finish in order until one fails
                will_finish, fails_at = [], None
                for i in seq:
                    if failing & set(batch_vals[i]):
                        fails_at = i
                        break
                    will_finish.append(i)
                models.LOG.clear()
                raised = False
                # whatever the function raises (a StopIteration reaches the
                # caller as RuntimeError from the generator, PEP 479) the
                # grow must not return normally
                expected = (models.FlakyError,) if fails_at is None or \
                    fail_exc == "flaky" else (Exception,)
                try:
                    with under_test(tag, expect=expected):
                        if o == "grow":
                            crop.grow(tuple(seq), verbosity=0)
                        elif o == "grow_one":
                            x.grow(seq[0], crop=crop, verbosity=0)
                        else:
                            crop.grow_missing(verbosity=0)
                except core.PropertyViolation:
                    raise
                except expected:
                    raised = True
                if fails_at is not None:
                    stats[f"exc={fail_exc}"] += 1
                require(raised == (fails_at is not None),
                        "failure-not-propagated" if fails_at is not None
                        else "spurious-failure",
                        f"{tag}: batches {seq}, failing settings "
                        f"{sorted(failing)}, raised={raised}")
                finished |= set(will_finish)
                for i_ in will_finish:
                    kind_of[i_] = cur_kind[0]
                if fails_at is not None:
                    interesting = True
                    checked_after_interesting = False
                    stats["failed-grow"] += 1
                else:
                    called = sorted(models.plain(kw["a"])
                                    for kw in models.LOG)
                    want = sorted(a for i in seq for a in batch_vals[i])
                    require(called == want, "grew-other-settings",
                            f"{tag}: function called on {called}, the "
                            f"batches {seq} hold {want}")
                    if o == "grow_missing":
                        require(finished == set(range(1, B + 1)),
                                "harness-model", "grow_missing model")
            elif o == "delete":
                if not finished:
                    continue
                i = sorted(finished)[op["i"] % len(finished)]
                os.remove(crops.result_path(root, name, i))
                finished.discard(i)
                interesting, checked_after_interesting = True, False
            elif o == "orphan_tmp":
                # a grower was killed while saving batch i: its temporary
                # file is left in results/ (it is not a result)
                i = op["i"] % B + 1
                with open(crops.result_path(root, name, i) +
                          ".00112233445566778899aabbccddeeff.tmp", "wb") as f:
                    f.write(b"\x80\x04unfinished")
            elif o == "swap":
                # two changes with no look at the progress in between: one
                # result goes away, another batch is grown (same COUNT of
                # results before and after)
                missing_now = sorted(set(range(1, B + 1)) - finished)
                cand = [j for j in missing_now
                        if not (failing & set(batch_vals[j]))]
                if not finished or not cand:
                    continue
                i = sorted(finished)[op["i"] % len(finished)]
                j = cand[op["j"] % len(cand)]
                os.remove(crops.result_path(root, name, i))
                with under_test(tag):
                    crop.grow(j)
                finished.discard(i)
                finished.add(j)
                kind_of[j] = cur_kind[0]
                interesting, checked_after_interesting = True, False
            elif o == "corrupt":
                if not finished:
                    continue
                i = sorted(finished)[op["i"] % len(finished)]
                p = crops.result_path(root, name, i)
                data = open(p, "rb").read()
                how = op["how"]
                if how == "short" and len(batch_vals[i]) < 2:
                    how = "empty"
                if how == "empty":
                    new = b""
                elif how == "half":
                    new = data[:max(1, len(data) // 2)]
                elif how == "garbage":
                    new = b"\x00not a pickle" + data[5:]
                else:   # readable but one result short
                    new = pickle.dumps(pickle.loads(data)[:-1])
                with open(p, "wb") as f:
                    f.write(new)
                with under_test("check_bad"):
                    bad = crop.check_bad()
                require(sorted(int(b) for b in bad) == [i],
                        "check_bad-report",
                        f"{tag}: corrupted result {i} ({how}), check_bad "
                        f"returned {bad}")
                finished.discard(i)
                interesting, checked_after_interesting = True, False
            elif o == "check_bad":
                with under_test("check_bad"):
                    bad = crop.check_bad()
                require(tuple(bad) == (), "check_bad-false-positive",
                        f"{tag}: check_bad reported {bad} on sound results")
            elif o == "reload":
                with under_test("reload"):
                    crop = make()
            elif o == "resow":
                with under_test("re-sow"):
                    if op.get("new_fn"):
                        # the user tweaked the function: everything grown
                        # from now on must come from the new one
                        cur_kind[0] = {"int": "str", "str": "ndarray",
                                       "ndarray": "int"}[cur_kind[0]]
                        fn2 = functools.partial(
                            models.flaky_fn, _xv=(failfile, cur_kind[0]))
                        crop = make(fn=fn2,
                                    **({spec[0]: spec[1]} if spec else {}))
                    elif op.get("fresh"):
                        crop = make(fn=fn,
                                    **({spec[0]: spec[1]} if spec else {}))
                        cur_kind[0] = kind
                    sow(crop)
                require(crops.batch_ids(root, name) == ids,
                        "resow-changed-batches", "batch ids changed")
            invariants(tag)
            if interesting:
                checked_after_interesting = True
    return {"nontrivial": interesting and checked_after_interesting,
            "classes": [f"B={B}"] + [f"op={o}" for o in stats],
            "notes": {"steps": len(case["ops"]),
                      "failed_grows": stats["failed-grow"]}}


# ----------------------------------------------------------------- strategy

@st.composite
def strategy(draw):
    N = draw(st.integers(1, 12))
    bt = draw(st.sampled_from(["num_batches", "batchsize", "default"]))
    if bt == "num_batches":
        N = min(N, 8)
        spec = ["num_batches", draw(st.integers(1, N + 2))]
    elif bt == "batchsize":
        s = draw(st.integers(1, N))
        while -(-N // s) > 8:
            s += 1
        spec = ["batchsize", s]
    else:
        N = min(N, 8)
        spec = None
    ids = st.integers(0, 30)
    op = st.one_of(
        st.fixed_dictionaries({"op": st.just("grow"),
                               "ids": st.lists(ids, min_size=1, max_size=4)}),
        st.fixed_dictionaries({"op": st.just("grow_one"), "i": ids}),
        st.fixed_dictionaries({"op": st.just("grow_missing")}),
        st.fixed_dictionaries({"op": st.just("set_fail"),
                               "vals": st.lists(ids, max_size=3),
                               "exc": st.sampled_from(
                                   ["flaky", "flaky", "stop", "key", "value",
                                    "eof", "unpicklable", "notfound",
                                    "timeout"])}),
        st.fixed_dictionaries({"op": st.just("delete"), "i": ids}),
        st.fixed_dictionaries({"op": st.just("swap"), "i": ids, "j": ids}),
        st.fixed_dictionaries({"op": st.just("orphan_tmp"), "i": ids}),
        st.fixed_dictionaries({"op": st.just("corrupt"), "i": ids,
                               "how": st.sampled_from(
                                   ["empty", "half", "garbage", "short"])}),
        st.fixed_dictionaries({"op": st.just("check_bad")}),
        st.fixed_dictionaries({"op": st.just("reload")}),
        st.fixed_dictionaries({"op": st.just("resow"),
                               "fresh": st.booleans(),
                               "new_fn": st.sampled_from([False, True])}),
    )
    return {"N": N, "spec": spec,
            "kind": draw(st.sampled_from(["int", "str", "ndarray"])),
            "ops": draw(st.lists(op, min_size=1, max_size=12)),
            "qrot": draw(st.integers(0, 4)),
            "odd_path": draw(st.sampled_from([None, None, None, "name",
                                              "dir"])),
            "cwd_crop": draw(st.sampled_from([False, False, True]))}


PHASES = [
    Phase("histories", run_case, strategy=strategy,
          examples={"quick": 6000, "thorough": 200000}),
]
