"""C13 - missing-data discovery reports exactly the locations that have no
data."""
import random
import itertools

import numpy as np
from hypothesis import strategies as st

from .. import core, gens, models, labelled
from ..core import Phase, under_test, require

ID = "C13"
LEVEL = "exploration"
RULE = (
    "cases: datasets with 1-4 parameter dimensions (sizes 1-4, int/float/str "
    "coordinates), 1-3 float variables each over a subset of those "
    "dimensions plus 0-2 internal (ignored) dimensions, null patterns built "
    "from whole-cell, per-element and per-variable masks (NaN, and +-inf for "
    "the isfinite criterion); find_missing_cases with ignore_dims as "
    "set/list/str; parse_into_cases with combos/cases that include absent "
    "labels; is_case_missing on partial settings; and the loop find -> "
    "harvest exactly the reported cases -> find.  Oracle: pure numpy - a "
    "location is missing iff for every variable the slice at the location's "
    "labels (on the dimensions that variable has) is entirely null, or a "
    "label is absent; the report must equal that set, in itertools.product "
    "order of the coordinates, without duplicates; after harvesting the "
    "report, nothing is missing; in a half of the cases the first one or two "
    "reported locations are then filled IN PLACE in the same object and the "
    "same object is asked again.  Non-trivial = >=2 variables with different "
    "null masks, or partial nulls along an ignored dimension."
)
ASSUMPTIONS = [
    "float data variables, plus bool variables (which are never null: a "
    "location with a flag stored has data)",
    "the find->harvest->find loop only for datasets whose variables span all "
    "parameter dimensions (a Runner always produces such variables)",
]

INTERNAL = ["time", "w"]


def xyz():
    return core.import_target()


def build(case):
    """-> (xr.Dataset, {var: (dims, data, nullmask)})"""
    import xarray as xr
    dims = case["dims"]
    sizes = {d: len(c) for d, c in dims}
    sizes.update(case["isizes"])
    coords = {d: list(c) for d, c in dims}
    for d in case["isizes"]:
        if any(d in v["dims"] for v in case["vars"]):
            coords[d] = labelled.INTERNAL_DIMS[d][:sizes[d]]
    data_vars, info = {}, {}
    for v in case["vars"]:
        rng = random.Random(v["seed"])
        vd = list(v["dims"])
        shape = tuple(sizes[d] for d in vd)
        n = int(np.prod(shape)) if shape else 1
        vals = np.array([rng.uniform(-10, 10) for _ in range(n)]).reshape(shape)
        pdims = [d for d in vd if d not in case["isizes"]]
        # whole-cell mask over the parameter dims of this variable
        cshape = tuple(sizes[d] for d in pdims)
        cn = int(np.prod(cshape)) if cshape else 1
        cell = np.array([rng.random() < v["p_cell"] for _ in range(cn)]
                        ).reshape(cshape)
        # broadcast cell mask to the full shape
        idx = tuple(slice(None) if d in pdims else None for d in vd)
        perm = [pdims.index(d) for d in vd if d in pdims]
        cellb = np.broadcast_to(
            np.transpose(cell, perm)[idx] if cshape else cell, shape)
        elem = np.array([rng.random() < v["p_elem"] for _ in range(n)]
                        ).reshape(shape)
        mask = cellb | elem
        bad = np.where(np.array([rng.random() < v["p_inf"] for _ in range(n)]
                                ).reshape(shape), np.inf, np.nan)
        vals = np.where(mask, bad, vals)
        if v.get("dtype") == "complex":
            # complex data: a NaN or an infinity in either part makes an
            # entry non-finite
            vals = np.array(vals + 1j * np.where(np.isfinite(vals),
                                                 vals / 2, 0.0))
        if v.get("dtype") == "bool":
            # a flag stored next to the numbers: never null, always data
            vals = np.array([rng.random() < 0.5 for _ in range(n)]
                            ).reshape(shape)
        data_vars[v["name"]] = (tuple(vd), vals)
        info[v["name"]] = (vd, vals)
    if case.get("coords_first"):
        # built the other way round: coordinates first, variables assigned
        # afterwards (in the reverse order, so that the order in which
        # dimensions first appear in the variables differs from ds.dims)
        ds = xr.Dataset(coords=coords)
        for name in reversed(list(data_vars)):
            ds[name] = data_vars[name]
    else:
        ds = xr.Dataset(data_vars, coords=coords)
    return ds, info, coords


def model_missing(info, coords, setting, method):
    """numpy model of 'no data at this (possibly partial) setting'."""
    for d, lab in setting.items():
        if d in coords and not any(models.plain(lab) == models.plain(c)
                                   and isinstance(lab, str) ==
                                   isinstance(c, str) for c in coords[d]):
            return True          # label absent
    for name, (vd, vals) in info.items():
        index = []
        for d in vd:
            if d in setting:
                i = [models.plain(c) for c in coords[d]].index(
                    models.plain(setting[d]))
                index.append(i)
            else:
                index.append(slice(None))
        sl = vals[tuple(index)]
        null = np.isnan(sl) if method == "isnull" else ~np.isfinite(sl)
        if not bool(np.all(null)):
            return False
    return True


def run_case(case):
    x = xyz()
    from xyzpy.gen.case_runner import (find_missing_cases, parse_into_cases,
                                       is_case_missing)
    ds, info, coords = build(case)
    method = case["method"]
    before = ds.copy(deep=True)
    ign = sorted(case["isizes"]) if case["isizes"] else None
    if ign is not None:
        sp = case.get("ignore_spelling", "set")
        ign_arg = set(ign) if sp == "set" else list(ign) if sp == "list" \
            else (ign[0] if len(ign) == 1 else tuple(ign))
    else:
        ign_arg = None
    with under_test("find_missing_cases"):
        fn_args, missing = find_missing_cases(ds, ignore_dims=ign_arg,
                                              method=method)
    pnames = [d for d, _ in case["dims"]]
    present_internal = [d for d in case["isizes"] if d in ds.dims]
    require(sorted(fn_args) == sorted(pnames), "fn_args",
            f"fn_args {fn_args} for parameter dims {pnames}")
    require(isinstance(missing, tuple), "not-a-tuple", type(missing).__name__)
    want = []
    for loc in itertools.product(*[coords[a] for a in fn_args]):
        if model_missing(info, coords, dict(zip(fn_args, loc)), method):
            want.append(tuple(models.plain(v) for v in loc))
    got = [tuple(models.plain(v) for v in m) for m in missing]
    if got != want:
        extra = [g for g in got if g not in want][:3]
        lost = [w for w in want if w not in got][:3]
        key = ("reported-location-with-data" if extra else
               "missing-location-not-reported" if lost else
               "order-or-duplicates")
        core.violated(key, f"fn_args={fn_args} reported {got!r:.300} "
                           f"expected {want!r:.300}; wrongly reported "
                           f"{extra}, not reported {lost}")

    # ---- parse_into_cases / is_case_missing on requested locations
    q = case.get("query")
    nq = 0
    if q:
        qc = {a: list(v) for a, v in q["combos"]} or None
        qcases = [dict(zip(q["case_args"], c)) for c in q["cases"]] or None
        with under_test("parse_into_cases"):
            new_cases = parse_into_cases(combos=qc, cases=qcases, ds=ds,
                                         method=method)
        want_cases = []
        for c in (qcases or [{}]):
            for sv in itertools.product(*[v for _, v in q["combos"]]):
                nc = {**c, **dict(zip([a for a, _ in q["combos"]], sv))}
                if model_missing(info, coords, nc, method):
                    want_cases.append(nc)
        nq = len(want_cases)
        norm = lambda cs: [sorted((k, models.plain(v)) for k, v in c.items())
                           for c in cs]
        require(norm(new_cases) == norm(want_cases), "parse_into_cases",
                lambda: f"got {new_cases!r:.300} expected "
                        f"{want_cases!r:.300}")
        # a DataArray takes the other branch of is_case_missing
        v0 = case["vars"][0]["name"]
        for c in (qcases or [{}])[:3]:
            sub = {k: v for k, v in c.items() if k in ds[v0].dims}
            if not sub:
                continue
            with under_test("is_case_missing(DataArray)"):
                g = is_case_missing(ds[v0], sub, method=method)
            w = model_missing({v0: info[v0]}, coords, sub, method)
            require(bool(g) == w, "is_case_missing-dataarray",
                    f"{v0} at {sub}: {g} expected {w}")

    require(ds.identical(before), "input-modified", "dataset was modified")

    # ---- the user fills some of the reported locations IN PLACE and asks
    # the same object again
    refilled = False
    if case.get("refill") and want:
        ds_w = ds                       # the very object queried above
        info2 = {n: (vd, vals.copy()) for n, (vd, vals) in info.items()}
        for loc in want[:case["refill"]]:
            setting = dict(zip(fn_args, loc))
            for name, (vd, vals) in info2.items():
                index = tuple(
                    [models.plain(c) for c in coords[d]].index(setting[d])
                    if d in setting else slice(None) for d in vd)
                vals[index] = 7.25
                ds_w[name].values[index] = 7.25
        with under_test("find_missing_cases (same object, filled in place)"):
            _, missing2 = find_missing_cases(ds_w, ignore_dims=ign_arg,
                                             method=method)
            flags = [bool(is_case_missing(ds_w, dict(zip(fn_args, loc)),
                                          method=method))
                     for loc in want[:case["refill"]]]
        want2 = [tuple(models.plain(v) for v in loc)
                 for loc in itertools.product(*[coords[a] for a in fn_args])
                 if model_missing(info2, coords, dict(zip(fn_args, loc)),
                                  method)]
        got2 = [tuple(models.plain(v) for v in m) for m in missing2]
        require(got2 == want2, "stale-answer-after-in-place-change",
                lambda: f"after filling {want[:case['refill']]} in place the "
                        f"same object reports {got2!r:.300}, expected "
                        f"{want2!r:.300}")
        require(not any(flags), "stale-answer-after-in-place-change",
                f"is_case_missing still True at {want[:case['refill']]} "
                f"after they were filled in place: {flags}")
        refilled = True
        ds, info = ds_w, info2
        want, missing = want2, missing2

    # ---- find -> harvest -> find
    looped = False
    if case.get("loop") and all(set(pnames) <= set(v["dims"])
                                for v in case["vars"]) and want and \
            all(v.get("dtype", "float") == "float" for v in case["vars"]):
        spec = {"vars": [[v["name"], [d for d in v["dims"]
                                      if d in case["isizes"]]]
                         for v in case["vars"]],
                "sizes": dict(case["isizes"]), "ret":
                "tuple" if len(case["vars"]) > 1 else "single", "log": None}
        # variables must carry (params..., internal...) in runner order
        ok_layout = all(
            [d for d in v["dims"] if d in case["isizes"]] ==
            list(v["dims"])[len(pnames):] for v in case["vars"])
        if ok_layout:
            looped = True
            models.LOG.clear()
            fn = labelled.make_fn(spec)
            var_dims = {n: tuple(d) for n, d in spec["vars"]}
            var_coords = {d: labelled.INTERNAL_DIMS[d][:case["isizes"][d]]
                          for d in present_internal}
            with under_test("harvest reported cases"):
                r = x.Runner(fn, tuple(n for n, _ in spec["vars"]),
                             fn_args=tuple(reversed(fn_args)),
                             var_dims=var_dims,
                             var_coords=var_coords)
                h = x.Harvester(r, full_ds=ds.copy(deep=True))
                # inf entries count as missing under 'isfinite' but are data
                # for a merge: they have to be overwritten explicitly
                h.harvest_cases([tuple(m) for m in missing],
                                fn_args=tuple(fn_args), verbosity=0,
                                overwrite=(True if method == "isfinite"
                                           else None))
                _, again = find_missing_cases(h.full_ds, ignore_dims=ign_arg,
                                              method=method)
            require(len(models.LOG) == len(missing), "harvest-call-count",
                    f"{len(models.LOG)} calls for {len(missing)} cases")
            require(len(again) == 0, "still-missing-after-harvest",
                    f"after harvesting {got!r:.200}: still missing "
                    f"{again!r:.200}")
            # previously present data is untouched
            for name, (vd, vals) in info.items():
                now = h.full_ds[name].sel(
                    {d: coords[d] for d in vd}).transpose(*vd).values
                keep = np.isfinite(vals) if method == "isfinite" \
                    else ~np.isnan(vals)
                require(np.array_equal(now[keep], vals[keep]),
                        "harvest-altered-existing-data", name)

    masks = {v["name"]: (v["p_cell"], v["p_elem"], v["seed"])
             for v in case["vars"]}
    partial = any(v["p_elem"] > 0 and any(d in case["isizes"]
                                          for d in v["dims"])
                  for v in case["vars"])
    nt = (len(case["vars"]) >= 2 and len(set(masks.values())) >= 2) or partial
    return {"nontrivial": nt and 0 < len(want),
            "classes": [f"pdims={len(pnames)}", f"vars={len(case['vars'])}",
                        f"method={method}", f"missing={min(len(want), 3)}+",
                        "looped" if looped else "no-loop",
                        "query" if q else "no-query",
                        "partial-internal" if partial else "no-partial"]}


# ----------------------------------------------------------------- strategy

@st.composite
def strategy(draw):
    nd = draw(st.integers(1, 4))
    # (some names are contained in the name of an ignored dimension)
    names = draw(st.lists(st.sampled_from(["a", "b", "c", "d", "x", "n", "t",
                                           "i", "e", "me"]),
                          min_size=nd, max_size=nd, unique=True))
    dims = [[n, draw(gens.arg_values(1, 4 if nd < 4 else 3, mixed=False))]
            for n in names]
    isizes = {}
    for d in draw(st.lists(st.sampled_from(INTERNAL), max_size=2,
                           unique=True)):
        isizes[d] = draw(st.integers(1, 3 if d == "time" else 2))
    nv = draw(st.sampled_from([2, 1, 3, 2]))
    full = draw(st.sampled_from([True, True, False]))
    vars_ = []
    for j in range(nv):
        if full:
            pd = list(names)
        else:
            pd = [n for n in names if draw(st.booleans())]
        idims = [d for d in isizes if draw(st.booleans())]
        vars_.append({
            "name": f"v{j}", "dims": pd + idims,
            "seed": draw(st.integers(0, 2**20)),
            "p_cell": draw(st.sampled_from([0.5, 0.0, 0.3, 0.8, 1.0])),
            "p_elem": draw(st.sampled_from([0.0, 0.0, 0.3, 0.7])),
            "p_inf": draw(st.sampled_from([0.0, 0.0, 0.5])),
            "dtype": draw(st.sampled_from(["float", "float", "float",
                                           "bool", "complex"]))
            if j > 0 else draw(st.sampled_from(["float", "float",
                                                "complex"])),
        })
    if draw(st.booleans()) and nv > 1:
        # same mask for all variables (whole-dataset holes)
        for v in vars_[1:]:
            if v["dims"] == vars_[0]["dims"]:
                v["seed"], v["p_cell"] = vars_[0]["seed"], vars_[0]["p_cell"]
                v["p_elem"], v["p_inf"] = 0.0, 0.0
                vars_[0]["p_elem"] = 0.0
    case = {"dims": dims, "isizes": isizes, "vars": vars_,
            "method": draw(st.sampled_from(["isnull", "isnull", "isfinite"])),
            "ignore_spelling": draw(st.sampled_from(["set", "list", "str"])),
            "loop": draw(st.booleans()),
            "refill": draw(st.sampled_from([0, 0, 1, 2])),
            "coords_first": draw(st.booleans())}
    if draw(st.booleans()):
        # a query: some dims by combos, the others by cases, incl. absent
        k = draw(st.integers(0, nd))
        cdims, kdims = dims[:k], dims[k:]

        def with_absent(vals):
            fam_str = isinstance(vals[0], str)
            extra = ["__absent__"] if fam_str else [987654]
            if not fam_str and any(isinstance(v, float) and v != 0
                                   for v in vals) and draw(st.booleans()):
                # an absent label right next to a stored one (4e-6 relative)
                near = next(v for v in vals if isinstance(v, float) and v)
                extra = [near * (1 + 4e-6)]
            return (extra if draw(st.booleans()) else []) + list(vals)
        combos = [[n, with_absent(v)[:4]] for n, v in cdims]
        case_args = [n for n, _ in kdims]
        if case_args and draw(st.booleans()):
            case_args = case_args[:draw(st.integers(1, len(case_args)))]
        pools = [with_absent(dict((a, b) for a, b in dims)[n])
                 for n in case_args]
        cases = []
        if case_args:
            cases = draw(st.lists(
                st.tuples(*[st.sampled_from(p) for p in pools]),
                min_size=1, max_size=4, unique_by=lambda c: tuple(
                    gens._key(v) for v in c)))
        case["query"] = {"combos": combos, "case_args": case_args,
                         "cases": [list(c) for c in cases]}
    return case


PHASES = [
    Phase("missing", run_case, strategy=strategy,
          examples={"quick": 2400, "thorough": 100000}),
]
