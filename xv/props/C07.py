"""C07 - batches partition the work exactly and honour the requested size or
count (exhaustive enumeration)."""
import math
import itertools
import collections

from .. import core, models, crops
from ..core import Phase, under_test, require

ID = "C07"
LEVEL = "exploration"
RULE = (
    "exhaustive enumeration: every N in 1..Nmax (quick 32, thorough 64) x "
    "every batchsize in 1..N+1, every num_batches in 1..N+2 and the default x "
    "realisation (1-D grid, a 2/3-factor grid with non-alphabetical argument "
    "names, a case list, cases x sub-grid) x shuffle in {False, True, 7} x "
    "batch spec given at construction or at sow time x plain crop / "
    "Runner-backed crop with constants and resources.  Oracle: the batch "
    "files on disk are read back: ids are exactly 1..B, no batch is empty, "
    "their concatenation equals (unshuffled: in order; shuffled: as a "
    "multiset) the kwargs a direct run passes (recorded by the harness "
    "function), batchsize=s => every batch <= s and B=ceil(N/s), "
    "num_batches=k => B=min(k,N) and sizes differ by <= 1, and "
    "crop.batchsize/num_batches/num_sown_batches agree with that before and "
    "after re-creating the Crop from disk; a third of the cases sow the same "
    "work a second time (same object / re-created Crop / Crop reloaded by "
    "name only / the same numbers re-typed as floats, compared type-exactly) and everything is "
    "checked again; farmer cases also hand the same constants object to the "
    "crop of a second farmer with other stored constants/resources and "
    "compare with that farmer's direct run; a quarter of the grids are "
    "numpy arrays of dtype uint8 / int16 / int64 / float32 and the settings "
    "are compared type-exactly.  Non-trivial = N mod B != 0 or "
    "k > N or s > N.  Distinct by construction."
)
ASSUMPTIONS = [
    "the space is enumerated completely for the stated bounds; the shuffle "
    "seeds are {True, 7}",
]


def xyz():
    return core.import_target()


def build_inputs(case):
    """-> (combos or None, cases or None, fn_args or None)"""
    real, shape = case["real"], case["shape"]
    if real == "grid":
        g = crops.grid_from_shape(shape)
        if case.get("uni_names"):
            # argument names that are not in NFKC form (micro sign, ohm sign)
            g = crops.grid_from_shape(shape, names=("\u00b5", "a", "\u2126",
                                                    "d"))
        if case.get("np_dtype"):
            # values handed over as a numpy array of a small dtype: the
            # function receives numpy scalars of that dtype
            import numpy as np
            return ({a: np.array(v, dtype=case["np_dtype"]) for a, v in g},
                    None, None)
        return {a: v for a, v in g}, None, None
    if real == "cases":
        n = shape[0]
        return None, [(i, f"s{i % 3}") for i in range(n)], ("n", "k")
    # cases x subgrid
    nc, ng = shape
    return ({"zz": list(range(ng))},
            [(i, f"s{i}") for i in range(nc)], ("n", "k"))


def run_case(case):
    x = xyz()
    N = case["N"]
    spec = case["spec"]
    shuffle = case["shuffle"]
    combos, cases, fn_args = build_inputs(case)
    consts = {"q": 1.5}
    if case["farmer"]:
        # a sow-time constant that repeats a stored one takes precedence,
        # exactly as in Runner.run_combos(constants=...)
        consts["p"] = 7
        if N % 2:
            # ... and one that repeats a stored RESOURCE
            consts["tab"] = "s"
    consts_given = dict(consts)
    with core.scratch("xv-c07-") as root:
        fn = crops.record("int", None)
        ckw = {}
        skw = {}
        if spec is not None and spec[0] == "both":
            # a batch size AND the matching count (accepted when consistent)
            (ckw if case["where"] == "ctor" else skw).update(
                batchsize=spec[1], num_batches=math.ceil(N / spec[1]))
        elif spec is not None:
            (ckw if case["where"] == "ctor" else skw)[spec[0]] = spec[1]
        if case["farmer"]:
            # (a name stored both as constant and as resource: the constant
            # counts, as in Runner.run_combos)
            runner = x.Runner(fn, "out", fn_args=fn_args,
                              constants={"p": 3, "u": 4},
                              resources={"big": [1, 2], "u": 99, "tab": "r"})
            extra = {"p": 3, "u": 4, "big": [1, 2], "tab": "r"}
            mk = lambda **k: runner.Crop(name="c7", parent_dir=root, **k)
        else:
            extra = {}
            mk = lambda **k: x.Crop(fn=fn, name="c7", parent_dir=root, **k)
        with under_test("sow"):
            crop = mk(**ckw)
            if cases is None:
                crop.sow_combos(combos, constants=consts, shuffle=shuffle,
                                verbosity=0, **skw)
            else:
                # shuffle for case lists is a constructor setting
                crop.shuffle = shuffle
                crop.sow_cases(fn_args, cases,
                               combos=(tuple(combos.items()) if combos
                                       else None),
                               constants=consts, verbosity=0, **skw)
        typed_flag = [False]

        def check_disk(crop, stage):
            # ---- what is on disk
            ids = crops.batch_ids(root, "c7")
            B = len(ids)
            require(ids == list(range(1, B + 1)), "batch-ids",
                    f"batch ids {ids}")
            batches = [crops.read_batch(root, "c7", i) for i in ids]
            sizes = [len(b) for b in batches]
            require(all(s > 0 for s in sizes), "empty-batch", f"sizes {sizes}")
            # ---- what a direct run passes
            models.LOG.clear()
            with under_test("direct run"):
                if cases is None:
                    x.combo_runner(fn, combos, constants={**extra, **consts},
                                   verbosity=0)
                else:
                    x.case_runner(fn, fn_args, cases, combos=combos,
                                  constants={**extra, **consts}, verbosity=0)
            direct = [models.canon_kw(kw) for kw in models.LOG]
            require(len(direct) == N, "harness", f"{len(direct)} != N={N}")
            if case.get("np_dtype") or typed_flag[0]:
                def typed(kws):
                    return collections.Counter(
                        tuple(sorted((k, type(v).__name__,
                                      repr(models.plain(v)))
                                     for k, v in kw.items())) for kw in kws)
                td = typed(models.LOG)
                ts = typed(kw for b in batches for kw in b)
                require(td == ts, "argument-types",
                        lambda: f"{stage}: sown settings carry "
                                f"{list((ts - td).elements())[:2]}, a direct "
                                f"run passes {list((td - ts).elements())[:2]}")
            sown = [models.canon_kw(kw) for b in batches for kw in b]
            if collections.Counter(sown) != collections.Counter(direct):
                cd, cs = collections.Counter(direct), collections.Counter(sown)
                core.violated(
                    "not-a-partition",
                    f"{stage}: N={N} spec={spec}: sown {len(sown)} settings; missing "
                    f"{list((cd - cs).elements())[:2]}, extra/repeated "
                    f"{list((cs - cd).elements())[:2]}; sizes {sizes}")
            if not shuffle:
                # direct run of a grid iterates in the given argument order; the
                # sower sorts arguments by name: compare against that order
                if cases is None:
                    names = sorted(combos)
                    want = []
                    for vals in itertools.product(*[combos[a] for a in names]):
                        kw = dict(zip(names, vals))
                        kw.update(extra)
                        kw.update(consts)
                        want.append(models.canon_kw(kw))
                else:
                    want = direct
                require(sown == want, "unshuffled-order",
                        f"{stage}: N={N} spec={spec}: batch concatenation is not in "
                        f"sweep order")
            # ---- requested size / count
            if spec is None:
                require(B == N and set(sizes) == {1}, "default-batching",
                        f"default: B={B}, sizes {sizes}")
            elif spec[0] in ("batchsize", "both"):
                s = spec[1]
                require(max(sizes) <= s, "batch-too-large",
                        f"N={N} batchsize={s}: sizes {sizes}")
                require(B == math.ceil(N / s), "batch-count",
                        f"N={N} batchsize={s}: B={B}, expected {math.ceil(N/s)}")
            else:
                k = spec[1]
                require(B == min(k, N), "batch-count",
                        f"N={N} num_batches={k}: B={B}, expected {min(k, N)}")
                require(max(sizes) - min(sizes) <= 1, "unbalanced",
                        f"N={N} num_batches={k}: sizes {sizes}")
            # ---- what the crop reports, before and after reload
            with under_test("crop attributes"):
                rep = (crop.batchsize, crop.num_batches, crop.num_sown_batches)
                crop2 = x.Crop(name="c7", parent_dir=root)
                rep2 = (crop2.batchsize, crop2.num_batches,
                        crop2.num_sown_batches)
            require(rep == rep2, "reload-changes-numbers",
                    f"before reload {rep}, after {rep2}")
            require(rep[1] == B and rep[2] == B, "reported-num-batches",
                    f"reports num_batches={rep[1]} num_sown_batches={rep[2]}, "
                    f"on disk {B}")
            if spec is not None and spec[0] in ("batchsize", "both"):
                require(rep[0] == spec[1], "reported-batchsize",
                        f"batchsize {rep[0]} != {spec[1]}")
            else:
                require(rep[0] == min(sizes), "reported-batchsize",
                        f"batchsize {rep[0]} != smallest batch {min(sizes)}")
            return B

        B = check_disk(crop, "first sow")
        resow = case.get("resow")
        if case["farmer"] and not resow:
            # the same constants object is handed to the crop of another
            # farmer with other stored constants/resources: its settings
            # must be what a direct run of *that* farmer passes
            runner2 = x.Runner(fn, "out", fn_args=fn_args,
                               constants={"p": 4, "r": 0},
                               resources={"big": [9]})
            extra2 = {"p": 4, "r": 0, "big": [9]}
            with under_test("sow for a second farmer"):
                crop_b = runner2.Crop(name="c7b", parent_dir=root, **ckw)
                if cases is None:
                    crop_b.sow_combos(combos, constants=consts,
                                      shuffle=shuffle, verbosity=0, **skw)
                else:
                    crop_b.shuffle = shuffle
                    crop_b.sow_cases(fn_args, cases,
                                     combos=(tuple(combos.items()) if combos
                                             else None),
                                     constants=consts, verbosity=0, **skw)
            models.LOG.clear()
            with under_test("direct run"):
                if cases is None:
                    x.combo_runner(fn, combos,
                                   constants={**extra2, **consts_given},
                                   verbosity=0)
                else:
                    x.case_runner(fn, fn_args, cases, combos=combos,
                                  constants={**extra2, **consts_given},
                                  verbosity=0)
            direct_b = collections.Counter(models.canon_kw(kw)
                                           for kw in models.LOG)
            sown_b = collections.Counter(
                models.canon_kw(kw) for i in crops.batch_ids(root, "c7b")
                for kw in crops.read_batch(root, "c7b", i))
            if sown_b != direct_b:
                core.violated(
                    "second-farmer-settings",
                    f"N={N} spec={spec}: a second farmer's crop sown with "
                    f"the same constants object holds "
                    f"{list((sown_b - direct_b).elements())[:2]}, a direct "
                    f"run passes {list((direct_b - sown_b).elements())[:2]}")
        if resow:
            if (N + B) % 2:
                # some of the work has been done already when it is sown
                # again (the batch files are rewritten all the same)
                with under_test("grow before the re-sow"):
                    crop.grow(tuple(range(1, B + 1, 2)))
            with under_test("re-sow"):
                if resow == "recreate":
                    # a new object over the sown folder picks the batching up
                    # from disk
                    crop = mk()
                elif resow == "reload":
                    # only name and directory are known: function and farmer
                    # come from the crop's own files
                    crop = x.Crop(name="c7", parent_dir=root)
                elif resow == "retyped":
                    # the same numbers, now as floats (1 -> 1.0): the new
                    # settings are what a direct run of the new inputs passes
                    typed_flag[0] = True
                    if cases is None and not case.get("np_dtype"):
                        combos = {a: [float(v) for v in vs]
                                  for a, vs in combos.items()}
                    consts = {k: (float(v) if isinstance(v, int) else v)
                              for k, v in consts.items()}
                if cases is None:
                    crop.sow_combos(combos, constants=consts,
                                    shuffle=shuffle, verbosity=0)
                else:
                    crop.shuffle = shuffle
                    crop.sow_cases(fn_args, cases,
                                   combos=(tuple(combos.items()) if combos
                                           else None),
                                   constants=consts, verbosity=0)
            B2 = check_disk(crop, f"re-sow ({resow})")
            require(B2 == B, "resow-changed-batch-count",
                    f"N={N} spec={spec}: {B} batches, {B2} after sowing the "
                    f"same work again")
        if B >= 10 and cases is None and not shuffle:
            # the folder is then sown afresh into FEWER batches (a new Crop
            # that does not load the old settings): batches 1..3 are the new
            # partition (what becomes of the old files 4.. is not this
            # property's business)
            import xyzpy.gen.cropping as cropping
            with under_test("fresh sow into fewer batches"):
                if case["farmer"]:
                    c3 = cropping.Crop(farmer=runner, name="c7",
                                       parent_dir=root, num_batches=3,
                                       autoload=False)
                else:
                    c3 = x.Crop(fn=fn, name="c7", parent_dir=root,
                                num_batches=3, autoload=False)
                c3.sow_combos(combos, constants=consts, verbosity=0)
            have = crops.batch_ids(root, "c7")
            require(set(have) >= {1, 2, 3}, "batch-ids",
                    f"after sowing into 3 batches the batch files are {have}")
            new3 = [crops.read_batch(root, "c7", i) for i in (1, 2, 3)]
            sizes3 = [len(b) for b in new3]
            require(sum(sizes3) == N and max(sizes3) - min(sizes3) <= 1,
                    "unbalanced", f"N={N} into 3 batches: sizes {sizes3}")
            models.LOG.clear()
            x.combo_runner(fn, combos, constants={**extra, **consts},
                           verbosity=0)
            want3 = collections.Counter(models.canon_kw(kw)
                                        for kw in models.LOG)
            got3 = collections.Counter(models.canon_kw(kw)
                                       for b in new3 for kw in b)
            require(got3 == want3, "not-a-partition",
                    f"N={N}: batches 1-3 of the fresh sow do not hold the "
                    f"settings exactly once")
        regroup = None
        if 2 <= B < 10 and cases is None and (N + B) % 3 == 0:
            # the crop that has just been sown is asked, at the sow call, for
            # ONE batch holding everything.  The request may be refused; if
            # it is accepted the batch files are batch 1 and nothing else
            try:
                with under_test("re-sow into one batch", expect=(ValueError,)):
                    crop.sow_combos(combos, constants=consts, shuffle=shuffle,
                                    verbosity=0, batchsize=N)
                regroup = "accepted"
            except ValueError:
                regroup = "refused"
            if regroup == "accepted":
                have = crops.batch_ids(root, "c7")
                require(have == [1], "batch-ids",
                        f"N={N}: after an accepted re-sow with batchsize={N} "
                        f"over {B} batches the batch files are {have}")
                b1 = crops.read_batch(root, "c7", 1)
                models.LOG.clear()
                x.combo_runner(fn, combos, constants={**extra, **consts},
                               verbosity=0)
                require(collections.Counter(models.canon_kw(kw) for kw in b1)
                        == collections.Counter(models.canon_kw(kw)
                                               for kw in models.LOG),
                        "not-a-partition",
                        f"N={N}: the single batch of the re-sow does not "
                        f"hold the settings exactly once")
    nt = (N % B != 0) or (spec is not None and spec[1] > N)
    return {"nontrivial": nt,
            "classes": [f"real={case['real']}", f"shuffle={shuffle}",
                        f"spec={'default' if spec is None else spec[0]}",
                        f"where={case['where']}",
                        f"farmer={case['farmer']}",
                        f"resow={case.get('resow')}"]}


def enumerate_cases(tier, seed):
    nmax = 32 if tier == "quick" else 64
    for N in range(1, nmax + 1):
        specs = [None] + [["batchsize", s] for s in range(1, N + 2)] + \
                [["num_batches", k] for k in range(1, N + 3)] + \
                [["both", s] for s in range(1, N + 1)]
        reals = [("grid", (N,)), ("cases", (N,))]
        facs = [f for f in crops.factorisations(N) if len(f) > 1]
        if facs:
            reals.append(("grid", facs[len(facs) // 2]))
            if tier == "thorough":
                reals.append(("grid", facs[-1]))
            f2 = next((f for f in facs if len(f) == 2), None)
            if f2:
                reals.append(("cases_grid", f2))
        variants = list(itertools.product(
            [False, True, 7], ["ctor", "sow"], [False, True]))
        for i, spec in enumerate(specs):
            for j, (real, shape) in enumerate(reals):
                vs = variants
                for v, (sh, where, farmer) in enumerate(vs):
                    # every (N, spec, realisation) is sown again by the same
                    # object and by a re-created one; which of the twelve
                    # variants does it rotates
                    rs = [None, "same", "recreate", "reload",
                          "retyped"][(i + j + v + N) % 5]
                    c = {"N": N, "real": real, "shape": list(shape),
                         "spec": spec, "shuffle": sh, "where": where,
                         "farmer": farmer, "resow": rs}
                    if spec is not None and spec[0] == "both":
                        if v % 3:
                            continue
                        c["resow"] = None
                    if real == "grid" and (i + j + v) % 5 == 1:
                        c["uni_names"] = True
                    if real == "grid" and (i + j + v) % 4 == 0:
                        c["np_dtype"] = ["uint8", "float32", "int64",
                                         "int16"][(i + v + N) % 4]
                    yield c


PHASES = [
    Phase("enumerate", run_case, enumerate=enumerate_cases,
          distinct_by_construction=True,
          exhaustive={"quick": True, "thorough": True}),
]
