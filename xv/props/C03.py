"""C03 - labelled outputs name every number correctly (Dataset and
DataFrame)."""
import itertools
import functools
import collections

import numpy as np

from hypothesis import strategies as st

from .. import core, gens, models, labelled
from ..core import Phase, under_test, require
from .C01 import FakeSubmitExecutor

ID = "C03"
LEVEL = "exploration"
RULE = (
    "cases: grids (1-3 args) or case sets (+ optional sub-grid) x a runner "
    "description: 1-3 output variables, each scalar or with 1-2 internal "
    "dimensions (sizes 1-3), var_names as tuple/str/None (function returning "
    "tuple, single value, Dataset, DataArray or dict), var_dims as dict / "
    "dict with tuple keys / aligned tuple / bare str, internal coordinates "
    "via var_coords, via a constant naming the dimension, or absent, plain "
    "constants, resources, attrs; entry point in {combo_runner_to_ds, "
    "case_runner_to_ds, combo/case_runner_to_df, Runner.run_combos/run_cases "
    "(with default_runner_settings and per-call constants), label()}; "
    "shuffle False/True/int; optional fake executor.  Oracle: every grid "
    "point selected BY LABEL equals the recorded return value; coordinates "
    "equal the swept values (given order / sorted union); dims == swept args "
    "+ declared internal dims; constants are coordinates iff they name a "
    "dimension, else attributes; resources nowhere; attrs kept; unrequested "
    "case slots all-null; DataFrame: one row per evaluated setting and "
    "outputs == f(that row's arguments) (row-wise recomputation); "
    "Runner.last_ds is the returned object.  Non-trivial = >=2 swept "
    "arguments and (an internal dimension or >=2 variables or a DataFrame "
    "with shuffle)."
)
ASSUMPTIONS = [
    "one value family per swept argument (mixed str/number coordinates are "
    "coerced to strings by xarray itself)",
]

VAR_NAMES = ["out", "E", "sz", "res_", "v2"]


def xyz():
    return core.import_target()


def spell_var_dims(vars_, spelling):
    if all(not d for _, d in vars_):
        if spelling == "aligned_tuple":
            return [() for _ in vars_]
        return None if spelling != "dict" else {n: () for n, _ in vars_}
    if spelling == "dict":
        return {n: (d[0] if len(d) == 1 else tuple(d)) for n, d in vars_ if d}
    if spelling == "dict_tuple_keys":
        groups = collections.OrderedDict()
        for n, d in vars_:
            groups.setdefault(tuple(d), []).append(n)
        return {(tuple(ns) if len(ns) > 1 else ns[0]): d
                for d, ns in groups.items()}
    if spelling == "aligned_tuple":
        return tuple(tuple(d) for _, d in vars_)
    if spelling == "bare_str":
        return vars_[0][1][0]
    raise ValueError(spelling)


def run_case(case):
    x = xyz()
    desc = case["desc"]
    spec = {"vars": desc["vars"], "sizes": desc["sizes"], "ret": desc["ret"],
            "log": None, "str_var": desc.get("str_var"),
            "dict_plain": desc.get("dict_plain"),
            "mixed_dtype": desc.get("mixed_dtype")}
    fn = labelled.make_fn(spec)
    models.LOG.clear()
    entry = case["entry"]
    to_df = entry.endswith("_df")
    names = [n for n, _ in desc["vars"]]
    xobj = desc["ret"] in ("dataset", "dataarray", "dict")

    if xobj:
        var_names, var_dims, var_coords = None, None, None
    else:
        var_names = names[0] if desc["names_spelling"] == "str" else \
            (list(names) if desc["names_spelling"] == "list" else tuple(names))
        var_dims = spell_var_dims(desc["vars"], desc["dims_spelling"])
        var_coords = {d: labelled.INTERNAL_DIMS[d][:desc["sizes"][d]]
                      for d, how in desc["dim_coords"].items()
                      if how == "coords"} or None
    dim_consts = {d: labelled.INTERNAL_DIMS[d][:desc["sizes"][d]]
                  for d, how in desc["dim_coords"].items() if how == "constant"}
    if desc.get("dim_const_as") == "tuple":
        dim_consts = {d: tuple(v) for d, v in dim_consts.items()}
    elif desc.get("dim_const_as") == "ndarray":
        import numpy as _np
        dim_consts = {d: _np.array(v) for d, v in dim_consts.items()}
    consts = dict(desc["constants"])
    consts.update(dim_consts)
    resources = dict(desc["resources"])
    attrs = dict(desc["attrs"])
    extra = {**resources, **consts}     # (a stored constant beats a resource)

    # ---- inputs
    if case["mode"] == "combos":
        args = case["args"]
        fn_args = [a for a, _ in args]
        combos = {a: list(v) for a, v in args}
        if case.get("combo_spelling") == "pairs":
            combos = tuple((a, tuple(v)) for a, v in args)
        coords = {a: list(v) for a, v in args}
        settings = list(itertools.product(*[v for _, v in args]))
        requested = None
        cases_in = None
    else:
        cargs, cs = case["cases"]["args"], case["cases"]["cases"]
        sub = case.get("subgrid", [])
        fn_args = list(cargs) + [a for a, _ in sub]
        combos = {a: list(v) for a, v in sub} or None
        coords = {a: sorted(set(c[i] for c in cs))
                  for i, a in enumerate(cargs)}
        coords.update({a: list(v) for a, v in sub})
        settings = [tuple(c) + sv for c in cs
                    for sv in itertools.product(*[v for _, v in sub])]
        requested = set(tuple(models.plain(v) for v in s) for s in settings)
        if case.get("case_spelling") == "dict":
            cases_in = []
            for i_, c in enumerate(cs):
                items = list(zip(cargs, c))
                r_ = (i_ * case.get("key_rot", 0)) % len(items)
                cases_in.append(dict(items[r_:] + items[:r_]))
        else:
            cases_in = [tuple(c) for c in cs]

    run_opts = {}
    if case.get("shuffle"):
        run_opts["shuffle"] = case["shuffle"]
    if case.get("executor") is not None:
        run_opts["executor"] = FakeSubmitExecutor(case["executor"])
    desc_kw = dict(var_dims=var_dims, var_coords=var_coords,
                   resources=resources or None, attrs=attrs or None)
    if to_df:
        desc_kw.pop("var_coords")
        if not isinstance(var_dims, list):
            # (the description of scalar outputs - one () per variable - may
            # be passed along; anything else has no place in a table)
            desc_kw.pop("var_dims")

    import copy
    attrs_before = copy.deepcopy(attrs)
    consts_before = copy.deepcopy(consts)
    runner = None
    with under_test(entry):
        if entry in ("combo_to_ds", "combo_to_df"):
            f = x.combo_runner_to_df if to_df else x.combo_runner_to_ds
            out = f(fn, combos, var_names, constants=consts or None,
                    verbosity=0, **desc_kw, **run_opts)
        elif entry == "combo_to_ds_cases":
            out = x.combo_runner_to_ds(
                fn, combos, var_names,
                cases=(cases_in if case.get("case_spelling") == "dict"
                       else [dict(zip(cargs, c)) for c in cs]),
                constants=consts or None, verbosity=0, **desc_kw, **run_opts)
        elif entry in ("case_to_ds", "case_to_df"):
            f = x.case_runner_to_df if to_df else x.case_runner_to_ds
            fa = None if case.get("case_spelling") == "dict" else tuple(cargs)
            out = f(fn, fa, cases_in, var_names, combos=combos,
                    constants=consts or None, verbosity=0, **desc_kw,
                    **run_opts)
        else:
            # Runner / label: split constants between runner and call
            split_at = case.get("const_split", 0) % (len(consts) + 1)
            items = list(consts.items())
            r_consts, call_consts = dict(items[:split_at]), dict(items[split_at:])
            if case.get("override") and desc["constants"]:
                # a per-call constant takes precedence over the stored one
                k0 = sorted(desc["constants"])[0]
                r_consts[k0] = "stale-value"
                call_consts[k0] = consts[k0]
            defaults = {"verbosity": 0}
            call_opts = dict(run_opts)
            if case.get("defaults_carry_shuffle") and "shuffle" in call_opts:
                defaults["shuffle"] = call_opts.pop("shuffle")
            rk = dict(fn_args=tuple(fn_args), var_dims=var_dims,
                      var_coords=var_coords, constants=r_consts or None,
                      resources=resources or None, attrs=attrs or None,
                      **defaults)
            if entry.startswith("label"):
                runner = x.label(var_names, **rk)(fn)
            else:
                runner = x.Runner(fn, var_names, **rk)
            if to_df:
                call_opts["to_df"] = True
            if case["mode"] == "combos":
                out = runner.run_combos(combos, constants=call_consts,
                                        **call_opts)
            else:
                if combos:
                    call_opts["combos"] = dict(combos) \
                        if case.get("sub_spelling") == "dict" else tuple(
                            (a, list(v)) for a, v in combos.items())
                out = runner.run_cases(cases_in, constants=call_consts,
                                       **call_opts)
    require(attrs == attrs_before and
            set(consts) == set(consts_before) and
            all(models.deep_eq(consts[k_], consts_before[k_])
                for k_ in consts),
            "arguments-modified",
            f"the attrs / constants mappings passed in were modified: attrs "
            f"{attrs!r} (was {attrs_before!r})")
    if runner is not None:
        require(runner.last_ds is out, "last_ds-not-returned-object",
                "Runner.last_ds is not the object that was returned")
        if case.get("second_run") and not to_df and case["mode"] == "combos":
            # the same Runner again, with another per-call constant: nothing
            # of the first run may stick
            models.LOG.clear()
            extra2 = {"zz_run2": 5}
            with under_test("second run on the same Runner"):
                out2 = runner.run_combos(combos, constants={
                    **call_consts, **extra2}, **call_opts)
            labelled.check_dataset(
                out2, spec=spec, fn_args=fn_args, coords=coords,
                requested=None, fn_kwargs_extra={**extra, **extra2},
                constants={**consts, **extra2}, resources=resources,
                attrs=attrs, var_coords=var_coords, explicit_names=not xobj,
                tag="second run")
            models.LOG.clear()
            with under_test("third run without the extra constant"):
                out3 = runner.run_combos(combos, constants=call_consts,
                                         **call_opts)
            require("zz_run2" not in out3.attrs, "stale-constant",
                    f"a constant given to an earlier run is recorded on a "
                    f"later one: attrs {dict(out3.attrs)!r:.200}")
            models.LOG.clear()
            # put the log back to what the call-log oracle expects
            for s_ in settings:
                kw_ = dict(zip(fn_args, s_))
                kw_.update(extra)
                models.LOG.append(kw_)

    # ---- call log
    exp = []
    for s in settings:
        kw = dict(zip(fn_args, s))
        kw.update(extra)
        exp.append(models.canon_kw(kw))
    calls = models.read_log(None)
    if collections.Counter(calls) != collections.Counter(exp):
        core.violated("call-log", f"{len(calls)} calls, expected {len(exp)}; "
                                  f"first calls {calls[:2]} expected {exp[:2]}")

    if to_df:
        labelled.check_dataframe(
            out, spec=spec, fn_args=fn_args, settings=settings,
            fn_kwargs_extra=extra, constants=consts, resources=resources,
            attrs=attrs)
    else:
        labelled.check_dataset(
            out, spec=spec, fn_args=fn_args, coords=coords,
            requested=requested, fn_kwargs_extra=extra, constants=consts,
            resources=resources, attrs=attrs, var_coords=var_coords,
            explicit_names=not xobj)

    has_internal = any(d for _, d in desc["vars"])
    nt = len(fn_args) >= 2 and (has_internal or len(names) >= 2 or
                                (to_df and bool(case.get("shuffle"))))
    return {"nontrivial": nt,
            "classes": [f"entry={entry}", f"ret={desc['ret']}",
                        f"vars={len(names)}", f"internal={has_internal}",
                        f"shuffle={bool(case.get('shuffle'))}",
                        f"mode={case['mode']}",
                        "const-names-dim" if dim_consts else "no-dim-const",
                        f"dims_spelling={desc['dims_spelling']}"]}


# ----------------------------------------------------------------- strategy

@st.composite
def runner_desc(draw, to_df=False, allow_xobj=True):
    nvars = draw(st.sampled_from([2, 1, 3, 1, 2]))
    names = draw(st.lists(st.sampled_from(VAR_NAMES), min_size=nvars,
                          max_size=nvars, unique=True))
    sizes = {"t": draw(st.integers(1, 3)), "w": draw(st.integers(1, 2)),
             "s": draw(st.integers(1, 3))}
    vars_ = []
    for n in names:
        if to_df:
            dims = []
        else:
            dims = draw(st.lists(st.sampled_from(["t", "w", "s"]),
                                 min_size=0, max_size=2, unique=True))
        vars_.append([n, dims])
    used = sorted({d for _, ds_ in vars_ for d in ds_})
    rets = ["tuple", "tuple", "list"] if nvars > 1 else ["single", "single"]
    if allow_xobj and not to_df:
        rets += ["dataset", "dict"] + (["dataarray"] if nvars == 1 else [])
    ret = draw(st.sampled_from(rets))
    xobj = ret in ("dataset", "dataarray", "dict")
    spellings = ["dict", "dict_tuple_keys"]
    if any(d for _, d in vars_) or to_df:
        # one entry per variable, () for a scalar one
        spellings.append("aligned_tuple")
        if nvars == 1 and len(vars_[0][1]) == 1:
            spellings.append("bare_str")
    dim_coords = {}
    for d in used:
        dim_coords[d] = draw(st.sampled_from(
            ["coords", "constant", "none"] if not xobj else
            ["none", "constant"]))
    consts = draw(gens.constants(2))
    dim_const_as = draw(st.sampled_from(["list", "list", "tuple", "ndarray"]))
    resources = dict(draw(st.sampled_from(
        [{}, {}, {"big": [1, 2, 3]}, {"res": "x", "lookup": 7}])))
    plain_consts = [k for k in consts if k not in used]
    if plain_consts and draw(st.sampled_from([False, False, True])):
        # a name stored both as a constant and as a resource (a default
        # resource that a study overrides through its constants)
        resources[plain_consts[0]] = "resource-default"
    attrs = draw(st.sampled_from(
        [{}, {"note": "hello"}, {"version": 3, "tag": "a-b"}]))
    str_var = None
    scalars = [j for j, (_, d) in enumerate(vars_) if not d]
    if scalars and ret in ("single", "tuple", "list") and \
            draw(st.sampled_from([False, False, True])):
        str_var = draw(st.sampled_from(scalars))   # a string-valued output
    return {"str_var": str_var, "vars": vars_, "sizes": sizes, "ret": ret,
            "names_spelling": draw(st.sampled_from(
                ["tuple", "list"] + (["str"] if nvars == 1 else []))),
            "dims_spelling": draw(st.sampled_from(spellings)),
            "dim_coords": dim_coords, "constants": consts,
            "dim_const_as": dim_const_as,
            "dict_plain": draw(st.booleans()),
            "mixed_dtype": (not xobj) and draw(st.sampled_from(
                [False, False, True])),
            "resources": resources, "attrs": attrs}


@st.composite
def strategy(draw):
    mode = draw(st.sampled_from(["combos", "cases"]))
    if mode == "combos":
        entry = draw(st.sampled_from(
            ["combo_to_ds", "combo_to_df", "runner_combos", "label_combos",
             "runner_combos_df"]))
    else:
        entry = draw(st.sampled_from(
            ["case_to_ds", "case_to_df", "runner_cases", "combo_to_ds_cases",
             "runner_cases_df", "label_cases"]))
    to_df = entry.endswith("_df")
    desc = draw(runner_desc(to_df=to_df))
    reserved = set(desc["constants"]) | set(desc["resources"]) | \
        set(desc["attrs"]) | {"t", "w", "s"} | {n for n, _ in desc["vars"]}
    names = [n for n in gens.ARG_NAMES if n not in reserved]
    case = {"mode": mode, "entry": entry, "desc": desc,
            "shuffle": draw(st.sampled_from([False, True, False, 42, 9001])),
            "executor": draw(st.sampled_from([None, None, None, 5, 77])),
            "const_split": draw(st.integers(0, 3)),
            "defaults_carry_shuffle": draw(st.booleans()),
            "override": draw(st.booleans()),
            "second_run": draw(st.booleans())}
    if mode == "combos":
        case["args"] = draw(gens.grid(1, 3, 3, mixed=False, names=names))
        case["combo_spelling"] = draw(st.sampled_from(["dict", "pairs"]))
    else:
        cs = draw(gens.case_set(1, 3, 6, names=names))
        case["cases"] = cs
        rest = [n for n in names if n not in cs["args"]]
        if draw(st.sampled_from([False, False, True])):
            a = draw(st.sampled_from(rest))
            case["subgrid"] = [[a, draw(gens.arg_values(1, 3, mixed=False))]]
        else:
            case["subgrid"] = []
        case["case_spelling"] = draw(st.sampled_from(["dict", "tuple"]))
        case["key_rot"] = draw(st.integers(0, 2))
        case["sub_spelling"] = draw(st.sampled_from(["pairs", "dict"]))
    return case


# ----------------------- internal coordinates that depend on the arguments

def shifted_fn(_xv=None, **kw):
    """Returns a Dataset / DataArray over an internal dimension ``freq``
    whose LABELS depend on the argument ``n`` (freq = start(n) + 0..L-1);
    the value at label f is a function of (kw, f) only."""
    import xarray as xr
    ret, L, step = _xv
    models.LOG.append(dict(kw))
    labels = [step * int(kw["n"]) + i for i in range(L)]
    vals = np.array([shifted_value(kw, f) for f in labels])
    # non-index coordinates that depend on the arguments too: a scalar tag
    # and a quantity along the internal dimension
    extra_c = {"tag": shifted_value(kw, -1),
               "mom": (("freq",), [shifted_value(kw, f) + 0.5
                                   for f in labels])}
    if ret == "dataarray":
        return xr.DataArray(vals, dims=("freq",),
                            coords={"freq": labels, **extra_c}, name="amp")
    return xr.Dataset({"amp": (("freq",), vals),
                       "amp2": (("freq",), vals * 2)},
                      coords={"freq": labels, **extra_c})


def shifted_value(kw, f):
    return float(models.kw_number(kw, salt=3) % 4096) + f / 1000.0


def run_shifted(case):
    x = xyz()
    ret, L, step = case["ret"], case["L"], case["step"]
    ns, ms = case["n"], case["m"]
    fn = functools.partial(shifted_fn, _xv=(ret, L, step))
    models.LOG.clear()
    with under_test(case["entry"]):
        if case["entry"] == "combo_to_ds":
            out = x.combo_runner_to_ds(fn, {"n": ns, "m": ms}, None,
                                       verbosity=0)
        elif case["entry"] == "runner":
            out = x.Runner(fn, None).run_combos({"n": ns, "m": ms},
                                                verbosity=0)
        else:
            out = x.case_runner_to_ds(
                fn, ("n", "m"), [(n_, m_) for n_ in ns for m_ in ms], None,
                verbosity=0)
    import xarray as xr
    if isinstance(out, xr.DataArray):
        out = out.to_dataset(name="amp")
    names = ["amp"] if ret == "dataarray" else ["amp", "amp2"]
    union = sorted({step * n_ + i for n_ in ns for i in range(L)})
    require(sorted(out["freq"].values.tolist()) == union, "internal-labels",
            f"freq = {out['freq'].values.tolist()}, the function returned "
            f"the labels {union} in all")
    for n_ in ns:
        own = {step * n_ + i for i in range(L)}
        for m_ in ms:
            for f in union:
                for nm in names:
                    got = float(out[nm].sel(n=n_, m=m_, freq=f).values)
                    if f in own:
                        want = shifted_value({"n": n_, "m": m_}, f) * \
                            (2 if nm == "amp2" else 1)
                        require(got == want, "value-at-label",
                                f"{nm} at n={n_}, m={m_!r}, freq={f} is "
                                f"{got}; the function returned {want} for "
                                f"that label")
                    else:
                        require(got != got, "phantom-value",
                                f"{nm} at n={n_}, m={m_!r}, freq={f} is "
                                f"{got} but the function returned no such "
                                f"label for n={n_}")
            # the argument-dependent coordinates of this very point
            kw_ = {"n": n_, "m": m_}
            def at(name, **lab):
                # (a coordinate that does not vary along a swept dimension
                # is legitimately kept without that dimension)
                v = out[name]
                return float(v.sel({d: l for d, l in lab.items()
                                    if d in v.dims}).values)
            gtag = at("tag", n=n_, m=m_)
            require(gtag == shifted_value(kw_, -1), "coordinate-at-label",
                    f"coordinate 'tag' at n={n_}, m={m_!r} is {gtag}; the "
                    f"function returned {shifted_value(kw_, -1)} there")
            for f in sorted(own):
                gm = at("mom", n=n_, m=m_, freq=f)
                require(gm == shifted_value(kw_, f) + 0.5,
                        "coordinate-at-label",
                        f"coordinate 'mom' at n={n_}, m={m_!r}, freq={f} is "
                        f"{gm}; the function returned "
                        f"{shifted_value(kw_, f) + 0.5}")
    return {"nontrivial": len(ns) >= 2 and step > 0,
            "classes": ["argument-dependent-internal-labels",
                        f"entry={case['entry']}", f"ret={ret}"]}


@st.composite
def shifted_strategy(draw):
    return {"ret": draw(st.sampled_from(["dataset", "dataarray"])),
            "L": draw(st.integers(1, 4)),
            "step": draw(st.integers(0, 5)),
            "n": draw(st.lists(st.integers(0, 6), min_size=1, max_size=3,
                               unique=True)),
            "m": draw(st.lists(st.sampled_from(["p", "q", "rr"]), min_size=1,
                               max_size=2, unique=True)),
            "entry": draw(st.sampled_from(["combo_to_ds", "runner",
                                           "case_to_ds"]))}


PHASES = [
    Phase("labelled", run_case, strategy=strategy,
          examples={"quick": 2400, "thorough": 100000}),
    Phase("shifted-internal-labels", run_shifted, strategy=shifted_strategy,
          examples={"quick": 400, "thorough": 8000}),
]
