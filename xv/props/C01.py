"""C01 - a grid sweep evaluates every combination exactly once, in its own
slot, whatever the execution strategy."""
import os
import random
import functools
import itertools
import collections
import multiprocessing
import multiprocessing.pool
import concurrent.futures

from hypothesis import strategies as st

from .. import core, gens, models
from ..core import Phase, PropertyViolation, under_test, require

ID = "C01"
LEVEL = "exploration"
RULE = (
    "cases: grids of 1-5 arguments (drawn order, not alphabetical), 1-4 "
    "hash-distinct int/float/str values each (mixed allowed), spelled as "
    "dict / tuple of pairs / list of pairs / single pair, value containers "
    "list/tuple/range/ndarray, 0-2 constants, result kind int/str/tuple/"
    "nested list/ndarray, split and flat on/off, execution strategy in "
    "{sequential, shuffle=True, shuffle=int, fake submit-executor and fake "
    "apply_async-executor that run the pending calls in a GENERATED "
    "permutation (all completion orders become a generated value), real "
    "ThreadPool/ProcessPool/multiprocessing pools, parallel=True, "
    "num_workers}; plus grids with a duplicated value (must be rejected with "
    "no call made).  Oracle: the harness' own injective recording function; "
    "the call log must equal, as a multiset, {**combo, **constants} for every "
    "combination exactly once; the result must equal the nested-loop model "
    "(or the product-order list when flat, per output when split).  "
    "Non-trivial = >=2 arguments with unequal lengths, or >=4 arguments, or a "
    "non-sequential strategy; distinct = distinct case JSON."
)
ASSUMPTIONS = [
    "grid values are hash-distinct within an argument (1 and 1.0 count as "
    "the same label) and never NaN",
    "completion orders of real pools are sampled, not controlled; the fake "
    "executors control them exactly",
]


def xyz():
    return core.import_target()


# ----------------------------------------------------------- fake executors

class _Future:
    def __init__(self, ex, style):
        self._ex, self._done, self._res, self._exc = ex, False, None, None
        if style == "submit":
            self.result = self._get
        else:
            self.get = self._get

    def _get(self, timeout=None):
        if not self._done:
            self._ex._flush()
        if self._exc is not None:
            raise self._exc
        return self._res


class _FakeBase:
    """Runs all pending calls in a generated permutation the first time any
    future is awaited: completion order is an input."""

    def __init__(self, perm_seed):
        self._pending = []
        self._rng = random.Random(perm_seed)
        self.orders = []

    def _add(self, fn, args, kwargs, style):
        fut = _Future(self, style)
        self._pending.append((fut, fn, args, kwargs))
        return fut

    def _flush(self):
        pend, self._pending = self._pending, []
        order = list(range(len(pend)))
        self._rng.shuffle(order)
        self.orders.append(order)
        for i in order:
            fut, fn, args, kwargs = pend[i]
            try:
                fut._res = fn(*args, **kwargs)
            except BaseException as e:  # noqa
                fut._exc = e
            fut._done = True


class FakeSubmitExecutor(_FakeBase):
    def submit(self, fn, *args, **kwargs):
        return self._add(fn, args, kwargs, "submit")


class FakeApplyAsyncExecutor(_FakeBase):
    """ipyparallel-view style: apply_async(fn, *args, **kwargs) -> .get()"""

    def apply_async(self, f, *args, **kwargs):      # (ipyparallel's names)
        return self._add(f, args, kwargs, "get")


# ------------------------------------------------------------------ run_case

def spell_combos(args, spelling, containers):
    built = [(nm, gens.build_container(vals, c))
             for (nm, vals), c in zip(args, containers)]
    if spelling == "dict":
        return dict(built)
    if spelling == "tuple_pairs":
        return tuple(built)
    if spelling == "list_pairs":
        return [list(p) for p in built]
    if spelling == "single_pair":
        return built[0]
    raise ValueError(spelling)


def expected_calls(args, constants):
    names = [a for a, _ in args]
    out = []
    for combo in itertools.product(*[v for _, v in args]):
        kw = dict(zip(names, combo))
        kw.update(constants)
        out.append(models.canon_kw(kw))
    return out


def run_case(case, real_pool=False):
    x = xyz()
    args = case["args"]
    if case.get("nan_at") is not None and case.get("duplicate") is None:
        # one grid value is NaN (a float like any other for the sweep)
        i_, j_ = case["nan_at"]
        args = [[nm, list(v)] for nm, v in args]
        i_ %= len(args)
        if all(isinstance(v, float) for v in args[i_][1]):
            args[i_][1][j_ % len(args[i_][1])] = float("nan")
    consts = case.get("constants", {})
    kind = case["kind"]
    strat = case["strategy"]
    split, flat = case.get("split", False), case.get("flat", False)

    with core.scratch("xv-c01-") as tmp:
        uses_procs = strat["type"] in ("process_cf", "process_mp",
                                       "parallel_true", "num_workers")
        logfile = os.path.join(tmp, "calls.log") if uses_procs else None
        models.LOG.clear()
        fn = functools.partial(models.record_fn, _xv=(kind, logfile))
        style = case.get("fn_style", "partial")
        if style == "closure":
            # not importable by name: the package's own pools ship such
            # functions by value
            def make(k_, l_):
                def swept(**kw):
                    return models.record_fn(_xv=(k_, l_), **kw)
                return swept
            fn = make(kind, logfile)
        elif style == "lambda":
            fn = (lambda k_, l_: lambda **kw: models.record_fn(
                _xv=(k_, l_), **kw))(kind, logfile)
        elif style == "wraps" and consts:
            # a decorated function: the wrapper accepts one keyword more than
            # the function it wraps (and advertises, via functools.wraps,
            # only the inner signature)
            wkey = sorted(consts)[0]
            inner_names = [a for a, _ in args] + \
                [c for c in sorted(consts) if c != wkey]
            ns = {"models": models, "XV": (kind, logfile), "WKEY": wkey}
            exec("def inner({0}):\n"
                 "    kw = dict({1})\n"
                 "    kw[WKEY] = _extra[0]\n"
                 "    return models.record_fn(_xv=XV, **kw)\n".format(
                     ", ".join(inner_names),
                     ", ".join(f"{n}={n}" for n in inner_names)), ns)
            ns["_extra"] = [None]

            def deco(inner, ns=ns, wkey=wkey):
                @functools.wraps(inner)
                def wrapper(*a, **k):
                    ns["_extra"][0] = k.pop(wkey, "<default>")
                    return inner(*a, **k)
                return wrapper
            fn = deco(ns["inner"])
        combos = spell_combos(args, case["spelling"], case["containers"])
        opts = dict(constants=dict(consts) or None, split=split, flat=flat,
                    verbosity=0)
        if strat.get("shuffle") is not None:
            opts["shuffle"] = strat["shuffle"]
        pool = None
        t = strat["type"]
        if t == "fake_submit":
            opts["executor"] = FakeSubmitExecutor(strat["perm_seed"])
        elif t == "fake_apply_async":
            opts["executor"] = FakeApplyAsyncExecutor(strat["perm_seed"])
        elif t == "thread_cf":
            pool = opts["executor"] = concurrent.futures.ThreadPoolExecutor(3)
        elif t == "process_cf":
            pool = opts["executor"] = concurrent.futures.ProcessPoolExecutor(
                2, mp_context=multiprocessing.get_context("fork"))
        elif t == "thread_mp":
            pool = opts["executor"] = multiprocessing.pool.ThreadPool(3)
        elif t == "process_mp":
            pool = opts["executor"] = multiprocessing.get_context(
                "fork").Pool(2)
        elif t == "parallel_true":
            opts["parallel"] = True
        elif t == "num_workers":
            opts["num_workers"] = strat.get("workers", 2)

        dup = case.get("duplicate")
        try:
            if dup is not None:
                # negative case: one value repeated -> XYZError, no calls
                from xyzpy.utils import XYZError
                try:
                    with under_test("combo_runner(duplicate)",
                                    expect=(XYZError,)):
                        x.combo_runner(fn, combos, **opts)
                except XYZError:
                    calls = models.read_log(logfile)
                    require(not calls, "duplicate-rejected-after-calls",
                            f"{len(calls)} calls were made before rejecting")
                    return {"classes": ["duplicate-rejected"],
                            "nontrivial": True}
                core.violated("duplicate-not-rejected",
                              f"duplicate value in {args!r} was accepted")
            with under_test("combo_runner"):
                got = x.combo_runner(fn, combos, **opts)
        finally:
            if pool is not None:
                if hasattr(pool, "shutdown"):
                    pool.shutdown(wait=True)
                else:
                    pool.terminate()
                    pool.join()
        calls = models.read_log(logfile)

    # ---- oracle 1: the call log
    exp = expected_calls(args, consts)
    if collections.Counter(calls) != collections.Counter(exp):
        ce, cg = collections.Counter(exp), collections.Counter(calls)
        missing = list((ce - cg).elements())[:3]
        extra = list((cg - ce).elements())[:3]
        core.violated("call-log",
                      f"{len(calls)} calls for {len(exp)} combinations; "
                      f"missing {missing}; unexpected/repeated {extra}")

    # ---- oracle 2: the result
    names = [a for a, _ in args]
    vals = [v for _, v in args]

    def leaf_full(combo):
        kw = dict(zip(names, combo))
        kw.update(consts)
        return models.result_of(kind, kw)

    if split:
        nout = len(leaf_full(tuple(v[0] for v in vals)))
        leaves = [(lambda combo, i=i: leaf_full(combo)[i])
                  for i in range(nout)]
    else:
        leaves = [leaf_full]

    def model(leaf):
        if flat:
            return tuple(leaf(c) for c in itertools.product(*vals))
        return models.nested(vals, leaf)

    want = tuple(model(lf) for lf in leaves) if split else model(leaves[0])
    if not models.deep_eq(got, want):
        core.violated("result-mismatch", _first_diff(got, want))

    # ---- twin sweep: the same grid again (same process), with every
    # integer turned into the equal float and vice versa: the function must
    # be called with the objects of THIS sweep (nothing cached from the last)
    if case.get("twin") and dup is None and t in ("seq", "fake_submit",
                                                  "fake_apply_async"):
        def flip(v):
            if isinstance(v, bool) or isinstance(v, str):
                return v
            if isinstance(v, int):
                return float(v)
            if isinstance(v, float) and v == v and abs(v) < 2 ** 50 \
                    and v == int(v):
                return int(v)
            return v
        args2 = [[nm, [flip(v) for v in vs]] for nm, vs in args]
        if any(type(a) is not type(b) for (_, va), (_, vb) in
               zip(args, args2) for a, b in zip(va, vb)):
            models.LOG.clear()
            opts2 = {k: v for k, v in opts.items() if k != "executor"}
            with under_test("combo_runner (twin sweep)"):
                x.combo_runner(fn, {nm: list(vs) for nm, vs in args2},
                               **opts2)
            want_t = collections.Counter(
                tuple(sorted((k, type(v).__name__, repr(v))
                             for k, v in zip(names, combo)))
                for combo in itertools.product(*[v for _, v in args2]))
            got_t = collections.Counter(
                tuple(sorted((k, type(models.plain_typed(kw[k])).__name__,
                              repr(models.plain_typed(kw[k])))
                             for k in names)) for kw in models.LOG)
            require(got_t == want_t, "stale-arguments",
                    lambda: f"second sweep over {args2!r:.200}: the function "
                            f"received {list((got_t - want_t).elements())[:2]}"
                            f" instead of "
                            f"{list((want_t - got_t).elements())[:2]}")
    lens = [len(v) for v in vals]
    nt = (len(args) >= 2 and len(set(lens)) > 1) or len(args) >= 4 \
        or t != "seq" or strat.get("shuffle")
    return {"nontrivial": bool(nt),
            "classes": [f"args={len(args)}", f"strategy={t}",
                        f"shuffle={'no' if not strat.get('shuffle') else 'yes'}",
                        f"kind={kind}", f"split={split}", f"flat={flat}",
                        f"spelling={case['spelling']}",
                        "square" if len(set(lens)) <= 1 else "non-square"]}


def _first_diff(got, want, path="result"):
    if isinstance(want, tuple) and isinstance(got, (tuple, list)) \
            and len(got) == len(want):
        for i, (g, w) in enumerate(zip(got, want)):
            if not models.deep_eq(g, w):
                return _first_diff(g, w, f"{path}[{i}]")
    return f"{path}: got {got!r:.300}, expected {want!r:.300}"


def run_case_pool(case):
    return run_case(case, real_pool=True)


# ---------------------------------------------------------------- strategies

AWKWARD_NAMES = ["fn", "executor", "args", "kwds", "kwargs", "self", "cases",
                 "combos", "constants", "func", "f", "pool", "shuffle",
                 "verbosity", "results", "key", "i"]
IN_PROCESS = ["seq", "seq", "fake_submit", "fake_submit", "fake_apply_async",
              "thread_cf", "thread_mp"]
REAL_POOLS = ["num_workers", "process_cf", "process_mp", "num_workers",
              "parallel_true", "thread_cf", "thread_mp", "num_workers"]


@st.composite
def strategy(draw, types=IN_PROCESS, max_args=5):
    args = draw(gens.grid(1, max_args, 4))
    spell = draw(st.sampled_from(
        ["dict", "dict", "tuple_pairs", "list_pairs"]
        + (["single_pair"] if len(args) == 1 else [])))
    conts = [draw(st.sampled_from(gens.container_choice(v) +
                                  ["iter", "generator", "map"]))
             for _, v in args]
    if draw(st.sampled_from([False] * 7 + [True])):
        # argument names that the package itself uses for parameters of its
        # helpers (a function being swept over functions has an ``fn``...)
        awkward = draw(st.permutations(AWKWARD_NAMES))
        for i in range(min(len(args), draw(st.integers(1, 2)))):
            args[i][0] = awkward[i]
    consts = draw(gens.constants())
    for nm, _ in args:
        consts.pop(nm, None)
    if draw(st.sampled_from([False, False, False, True])):
        # None is a value like any other ("no limit", "no seed")
        free = [n for n in gens.CONST_NAMES
                if n not in consts and n not in {a for a, _ in args}]
        if free:
            consts[free[0]] = None
    if draw(st.sampled_from([False] * 4 + [True])):
        # a negative zero among the values (np.round(-0.25), -1e-400 ...):
        # the function must be given that very value
        for _, vals in args:
            if all(isinstance(v, float) and v != 0 for v in vals):
                vals[draw(st.integers(0, len(vals) - 1))] = -0.0
                break
    kind = draw(st.sampled_from(
        ["int", "str", "tuple2", "tuple3", "nested", "ndarray", "tuple_arr",
         "tuple_2d", "ndarray2d"]))
    split = draw(st.booleans()) if kind.startswith("tuple") else False
    flat = draw(st.booleans())
    t = draw(st.sampled_from(types))
    strat = {"type": t}
    sh = draw(st.sampled_from([None, None, True, "int"]))
    if sh == "int":
        sh = draw(st.integers(1, 10**6))
    if sh is not None:
        strat["shuffle"] = sh
    if t.startswith("fake"):
        strat["perm_seed"] = draw(st.integers(0, 10**6))
    if t == "num_workers":
        strat["workers"] = draw(st.sampled_from([2, 3, 1, 3]))
    style = "partial"
    if t not in ("process_cf", "process_mp"):
        # (pools handed in by the user pickle by reference: only importable
        # functions are valid there)
        style = draw(st.sampled_from(["partial", "partial", "closure",
                                      "lambda", "wraps"]))
    nan_at = None
    if draw(st.sampled_from([False, False, False, True])):
        nan_at = [draw(st.integers(0, 4)), draw(st.integers(0, 3))]
    case = {"twin": draw(st.booleans()), "fn_style": style,
            "nan_at": nan_at,
            "args": args, "spelling": spell, "containers": conts,
            "constants": consts, "kind": kind, "split": split, "flat": flat,
            "strategy": strat}
    if draw(st.sampled_from([False] * 19 + [True])):
        # duplicate one value on purpose
        i = draw(st.integers(0, len(args) - 1))
        vals = args[i][1]
        j = draw(st.integers(0, len(vals) - 1))
        k = draw(st.integers(0, len(vals)))
        args[i][1] = vals[:k] + [vals[j]] + vals[k:]
        conts[i] = "list"
        case["duplicate"] = [i, j]
    return case


@st.composite
def pool_strategy(draw):
    # up to 4 arguments: 100+ combinations, several chunks per worker; for
    # the default process pool grid sizes such as 9, 18, 27, 54, 64, 81, 108
    # (which do not divide evenly among 1-3 workers' chunks) are favoured
    case = draw(strategy(types=REAL_POOLS, max_args=4))
    if case["strategy"]["type"] == "num_workers" and \
            case.get("duplicate") is None:
        k = draw(st.integers(2, 4))
        lens = [draw(st.sampled_from([3, 3, 2, 4, 3])) for _ in range(k)]
        if draw(st.sampled_from([False, False, False, True])):
            # the largest grids of the property (512 .. 1024 combinations)
            lens = draw(st.sampled_from([[4, 4, 4, 4, 4], [8, 8, 8],
                                         [8, 8, 9], [4, 4, 4, 4, 3]]))
            k = len(lens)
        case["args"] = [[nm, list(range(10 * i, 10 * i + n))]
                        for i, (nm, n) in enumerate(zip("vwxyz", lens))]
        case["containers"] = ["list"] * k
        case["spelling"] = "dict"
        case["constants"] = {}
    return case


PHASES = [
    Phase("inproc", run_case, strategy=strategy,
          examples={"quick": 6000, "thorough": 300000}),
    Phase("pools", run_case_pool, strategy=pool_strategy,
          examples={"quick": 120, "thorough": 2400},
          shards={"quick": 8, "thorough": 8}, shrink=False),
]
