"""C04 - sow, grow, reap returns exactly what running directly would have."""
import os
import sys
import traceback
import itertools

from hypothesis import strategies as st

from .. import core, gens, models, crops, labelled
from ..core import Phase, under_test, require

ID = "C04"
LEVEL = "exploration"
RULE = (
    "histories: input (grid of 1-3 arguments in drawn order, case set with "
    "optional sub-grid, or n samples through a Sampler) with 1..40 settings; "
    "batching default / batchsize 1..N+1 / num_batches 1..N+2 given at "
    "construction or at sow; shuffle False/True/int at construction and/or "
    "at sow (sow_combos, sow_cases, sow_samples); a GROW PLAN = generated "
    "sequence of steps over batch indices (Crop.grow(ids), xyzpy.grow(i, "
    "crop), xyzpy.grow(i) run inside the crop directory, grow_missing, "
    "repeated grows), completed by grow_missing; RELOAD points where the Crop "
    "is re-created from (name, parent_dir) only; a phase where every step "
    "runs in a forked fresh process; a phase with num_workers=2.  Oracle: "
    "reap() deep-equals the direct in-process sweep of the same arguments "
    "(same value in every slot, same missing slots).  Non-trivial = >=2 "
    "batches with N mod B != 0, or shuffle, or a non-ascending grow order, or "
    "a reload."
)
ASSUMPTIONS = [
    "raw reaps nest arguments in name-sorted order (sow_combos sorts them by "
    "design); the direct reference sweep is given that order",
    "shuffle values are False/True/int as the property states; at sow_combos "
    "also the explicit None, which the method reads as 'keep what the crop "
    "was constructed with'",
]


def xyz():
    return core.import_target()


def n_settings(case):
    n = 1
    if case["input"] == "grid":
        for _, v in case["args"]:
            n *= len(v)
    else:
        n = len(case["cases"]["cases"])
        for _, v in case.get("subgrid", []):
            n *= len(v)
    return n


def in_child(fn):
    """Run fn() in a forked fresh process; raise in the parent on failure."""
    r, w = os.pipe()
    pid = os.fork()
    if pid == 0:
        os.close(r)
        code = 0
        try:
            fn()
        except BaseException:
            code = 1
            try:
                os.write(w, traceback.format_exc()[-3000:].encode())
            except Exception:
                pass
        finally:
            os._exit(code)
    os.close(w)
    chunks = []
    while True:
        b = os.read(r, 65536)
        if not b:
            break
        chunks.append(b)
    os.close(r)
    _, status = os.waitpid(pid, 0)
    if status != 0:
        raise RuntimeError("child step failed:\n" +
                           b"".join(chunks).decode(errors="replace"))


def run_history(case, fresh=False, workers=None):
    x = xyz()
    import xyzpy.gen.cropping as cropping
    kind = case["kind"]
    consts = case.get("constants", {})
    name = "c4"
    with core.scratch("xv-c04-") as root:
        # (with 'uneven': every other setting takes 30 ms, so that workers
        # finish the settings of a batch out of order)
        fn = crops.record(kind, None,
                          (0.03, 0) if case.get("uneven") else None)
        sown = []
        ckw = {}
        if case.get("ctor_shuffle") is not None:
            ckw["shuffle"] = case["ctor_shuffle"]
        bspec = case.get("batch")
        skw0 = {}
        if bspec:
            (ckw if case["batch_where"] == "ctor" else skw0)[bspec[0]] = \
                bspec[1]

        def sow(fn=fn, crop=None):
            skw = skw0
            if crop is None:
                crop = x.Crop(fn=fn, name=name, parent_dir=root, **ckw)
            else:
                # the object knows its batching already: asking for it again
                # is not part of this property
                skw = {k: v for k, v in skw0.items()
                       if k not in ("batchsize", "num_batches")}
            sown.append(crop)
            if case["input"] == "grid":
                combos = {a: list(v) for a, v in case["args"]}
                if case.get("sow_shuffle") == "keep":
                    # "whatever the crop was constructed with"
                    skw = dict(skw, shuffle=None)
                elif case.get("sow_shuffle") is not None:
                    skw = dict(skw, shuffle=case["sow_shuffle"])
                crop.sow_combos(combos, constants=consts or None,
                                verbosity=0, **skw)
            else:
                cs = case["cases"]
                sub = case.get("subgrid") or None
                crop.sow_cases(tuple(cs["args"]),
                               [tuple(c) for c in cs["cases"]],
                               combos=(None if not sub else
                                       {a: list(v) for a, v in sub}
                                       if case.get("sub_spelling") == "dict"
                                       else tuple((a, list(v))
                                                  for a, v in sub)),
                               constants=consts or None, verbosity=0, **skw)

        onlooker = []
        if case.get("aborted_first") and not fresh:
            # an earlier attempt at the same sweep with a function that broke
            # down in the middle of a batch; the function is repaired and the
            # sweep sown again
            import functools
            tfile = os.path.join(root, "fail-at.txt")
            kind0 = "str" if kind != "str" else "int"
            fn0 = functools.partial(models.failing_at, _xv=(kind0, tfile))
            saved_sh = case.get("sow_shuffle")
            if case.get("onlooker") and case["input"] == "grid":
                # (the first attempt went through the grid in another order)
                case["sow_shuffle"] = False if saved_sh else 13
            try:
                with under_test("first attempt: sow"):
                    sow(fn0)
            finally:
                case["sow_shuffle"] = saved_sh
            if case.get("onlooker"):
                # somebody opens the crop by name during the first attempt
                # and looks at it; they will do the final reap
                with under_test("onlooker opens the crop"):
                    onlooker.append(x.Crop(name=name, parent_dir=root))
                    str(onlooker[0]), onlooker[0].num_results
            capped = bool(bspec) and bspec[0] == "num_batches" and \
                bspec[1] != len(crops.batch_ids(root, name))
            if capped:
                # (asking once more for a batch count that had to be capped
                # is refused - not this property's business: start afresh)
                sown[-1].delete_all()
            for i in (() if capped else crops.batch_ids(root, name)):
                b = crops.read_batch(root, name, i)
                if len(b) >= 2:
                    with open(tfile, "w") as f:
                        f.write(models.canon_kw(b[len(b) // 2]))
                    try:
                        with under_test("first attempt: grow",
                                        expect=(models.FlakyError,)):
                            sown[-1].grow(i)
                    except models.FlakyError:
                        pass
                    break
            sown.clear()
        with under_test("sow"):
            in_child(sow) if fresh else sow()

        B = len(crops.batch_ids(root, name))
        require(B >= 1, "no-batches", "nothing sown")
        # ------------------------------------------------ the grow plan
        done = set()
        order = []
        crop = None

        def get_crop(reload):
            nonlocal crop
            if crop is None or reload or fresh:
                crop = x.Crop(name=name, parent_dir=root)
            return crop

        plan = list(case["plan"]) + [{"how": "grow_missing", "ids": [],
                                      "reload": case.get("final_reload"),
                                      "parallel": True}]
        for step in plan:
            ids = sorted({i % B + 1 for i in step["ids"]}) \
                if step["how"] != "perm" else None
            how = step["how"]
            if how == "perm":
                ids = [i % B + 1 for i in step["ids"]]
                seen = set()
                ids = [i for i in ids if not (i in seen or seen.add(i))]
                how = "crop.grow"
            if step.get("descending") and ids:
                ids = list(reversed(ids))
            if how != "grow_missing" and not ids:
                continue
            opts = {"num_workers": workers} if (workers and
                                                step.get("parallel")) else {}

            def do():
                c = get_crop(step.get("reload"))
                if how == "crop.grow":
                    arg = tuple(ids) if len(ids) != 1 or step.get("tuple1") \
                        else ids[0]
                    if step.get("np_ids"):
                        # ids that come out of numpy (np.arange, masks ...)
                        import numpy as np
                        arg = np.array(ids) if isinstance(arg, tuple) \
                            else np.int64(arg)
                    c.grow(arg, **opts)
                elif how == "xyzpy.grow":
                    for i in ids:
                        if step.get("np_ids"):
                            import numpy as np
                            i = np.int64(i)
                        x.grow(i, crop=c,
                               verbosity=1 if case.get("uneven") else 0,
                               **opts)
                elif how == "grow-in-dir":
                    cwd = os.getcwd()
                    os.chdir(c.location)
                    try:
                        for i in ids:
                            cropping.grow(i, verbosity=0)
                    finally:
                        os.chdir(cwd)
                elif how == "grow_missing":
                    c.grow_missing(**opts)
            with under_test(f"grow step {how}"):
                in_child(do) if fresh else do()
            if how == "grow_missing":
                done |= set(range(1, B + 1))
            else:
                order += ids
                done |= set(ids)

        # ------------------------------------------------ reap
        got = {}

        def reap():
            c = onlooker[0] if onlooker else \
                get_crop(case.get("reap_reload"))
            got["res"] = c.reap()
        with under_test("reap"):
            reap()      # the result has to come back to this process

        # ------------------------------------------------ direct reference
        models.LOG.clear()
        with under_test("direct run"):
            if case["input"] == "grid":
                combos = {a: list(v) for a, v in
                          sorted(case["args"], key=lambda av: av[0])}
                direct = x.combo_runner(fn, combos, constants=consts or None,
                                        verbosity=0)
            else:
                cs = case["cases"]
                sub = case.get("subgrid") or []
                direct = x.combo_runner(
                    fn, {a: list(v) for a, v in sub} or None,
                    cases=[dict(zip(cs["args"], c)) for c in cs["cases"]],
                    constants=consts or None, verbosity=0)
        if not models.deep_eq(got["res"], direct):
            core.violated("reap-differs-from-direct-run",
                          _diff(got["res"], direct))
        require(not os.path.exists(crops.crop_dir(root, name)),
                "crop-left-behind", "complete reap did not clean up")
        if workers or (not fresh and case.get("same_object_again")):
            # a second sweep under the same name and directory with ANOTHER
            # function: grown by the same pool of worker processes, or sown
            # through the SAME Crop object after ``crop.fn = other_function``
            kind2 = "str" if kind != "str" else "int"
            fn2 = crops.record(kind2, None)
            with under_test("second sweep at the same location"):
                if workers:
                    sow(fn2)
                    sown[-1].grow_missing(num_workers=workers)
                else:
                    sown[0].fn = fn2
                    sow(fn2, crop=sown[0])
                    sown[-1].grow_missing()
                got2 = sown[-1].reap()
                if case["input"] == "grid":
                    direct2 = x.combo_runner(
                        fn2, {a: list(v) for a, v in
                              sorted(case["args"], key=lambda av: av[0])},
                        constants=consts or None, verbosity=0)
                else:
                    cs = case["cases"]
                    sub = case.get("subgrid") or []
                    direct2 = x.combo_runner(
                        fn2, {a: list(v) for a, v in sub} or None,
                        cases=[dict(zip(cs["args"], c))
                               for c in cs["cases"]],
                        constants=consts or None, verbosity=0)
            if not models.deep_eq(got2, direct2):
                core.violated("second-sweep-differs-from-direct-run",
                              _diff(got2, direct2))

    N = n_settings(case)
    shuffled = bool(case.get("ctor_shuffle")) or bool(case.get("sow_shuffle"))
    reloads = any(s.get("reload") for s in case["plan"]) or fresh
    asc = order == sorted(order)
    nt = (B >= 2 and N % B != 0) or shuffled or not asc or reloads
    return {"nontrivial": nt,
            "classes": [f"input={case['input']}", f"kind={kind}",
                        f"batch={bspec[0] if bspec else 'default'}",
                        "shuffled" if shuffled else "unshuffled",
                        "ctor-shuffle" if case.get("ctor_shuffle") else
                        "no-ctor-shuffle",
                        "remainder" if N % B else "even",
                        "reload" if reloads else "no-reload",
                        "ascending" if asc else "non-ascending",
                        f"B={min(B, 9)}"]}


def _diff(got, want, path="result"):
    if isinstance(want, tuple) and isinstance(got, (tuple, list)) \
            and len(got) == len(want):
        for i, (g, w) in enumerate(zip(got, want)):
            if not models.deep_eq(g, w):
                return _diff(g, w, f"{path}[{i}]")
    return f"{path}: reaped {got!r:.300}, direct run {want!r:.300}"


def run_fresh(case):
    return run_history(case, fresh=True)


def run_parallel(case):
    return run_history(case, workers=2)


# ------------------------------------------------------------- sample crops

def run_samples(case):
    """sow_samples -> grow -> reap through a Sampler: n rows, each row's
    outputs are f(row arguments)."""
    x = xyz()
    import numpy as np
    spec = {"vars": [["out", []], ["E", []]], "sizes": {}, "ret": "tuple",
            "log": None}
    fn = labelled.make_fn(spec)
    with core.scratch("xv-c04s-") as root:
        np.random.seed(case["np_seed"])
        runner = x.Runner(fn, ("out", "E"))
        sampler = x.Sampler(runner, data_name=os.path.join(root, "s.pkl"),
                            default_combos={"a": case["a"], "b": case["b"]})
        bkw = {case["batch"][0]: case["batch"][1]} if case.get("batch") else {}
        with under_test("sample crop"):
            if case.get("shuffle"):
                import xyzpy.gen.cropping as cropping
                crop = cropping.Crop(farmer=sampler, name="c4s",
                                     parent_dir=root, shuffle=case["shuffle"],
                                     **bkw)
            else:
                crop = sampler.Crop(name="c4s", parent_dir=root, **bkw)
            crop.sow_samples(case["n"], verbosity=0)
            B = len(crops.batch_ids(root, "c4s"))
            ids = [i % B + 1 for i in case["order"]]
            for i in ids:
                crop.grow(i)
            if case.get("reload"):
                crop = x.Crop(name="c4s", parent_dir=root)
                crop.farmer.data_name = sampler.data_name
            crop.grow_missing()
            df = crop.reap()
        settings = None
        labelled.check_dataframe(
            df, spec=spec, fn_args=["a", "b"], settings=None,
            fn_kwargs_extra={}, constants={}, resources={}, attrs={},
            n_rows=case["n"])
        for i in range(len(df)):
            require(models.plain(df.iloc[i]["a"]) in case["a"] and
                    models.plain(df.iloc[i]["b"]) in case["b"],
                    "sample-outside-choices", str(df.iloc[i].to_dict()))
    return {"nontrivial": B >= 2,
            "classes": ["input=samples", f"B={min(B, 9)}"]}


# ---------------------------------------------------------------- strategies

@st.composite
def history(draw, max_settings=40):
    kind = draw(st.sampled_from(["int", "str", "tuple2", "ndarray", "float"]))
    inp = draw(st.sampled_from(["grid", "grid", "cases"]))
    case = {"kind": kind, "input": inp}
    if inp == "grid":
        args = draw(gens.grid(1, 3, 4))
        while True:
            n = 1
            for _, v in args:
                n *= len(v)
            if n <= max_settings:
                break
            args = args[:-1]
        case["args"] = args
        used = {a for a, _ in args}
    else:
        cs = draw(gens.case_set(1, 3, 8))
        case["cases"] = cs
        used = set(cs["args"])
        if draw(st.sampled_from([False, False, True])):
            rest = [n for n in gens.ARG_NAMES if n not in used]
            k = draw(st.sampled_from([1, 2, 2]))
            subs = draw(st.lists(st.sampled_from(rest), min_size=k,
                                 max_size=k, unique=True))
            case["subgrid"] = [[a, draw(gens.arg_values(1, 3))]
                               for a in subs]
            case["sub_spelling"] = draw(st.sampled_from(["pairs", "dict"]))
            used |= set(subs)
    N = n_settings(case)
    consts = draw(gens.constants(1))
    case["constants"] = {k: v for k, v in consts.items() if k not in used}
    bt = draw(st.sampled_from(["default", "batchsize", "num_batches",
                               "num_batches", "batchsize"]))
    if bt == "batchsize":
        case["batch"] = ["batchsize", draw(st.integers(1, N + 1))]
    elif bt == "num_batches":
        case["batch"] = ["num_batches", draw(st.integers(1, N + 2))]
    case["batch_where"] = draw(st.sampled_from(["ctor", "sow"]))
    sh = st.sampled_from([None, None, False, True, 3, 12345])
    case["ctor_shuffle"] = draw(sh)
    if inp == "grid":
        case["sow_shuffle"] = draw(st.sampled_from(
            [None, None, False, True, 3, 12345, "keep"]))
    steps = draw(st.lists(st.fixed_dictionaries({
        "how": st.sampled_from(["crop.grow", "perm", "xyzpy.grow",
                                "grow-in-dir", "grow_missing", "crop.grow"]),
        "ids": st.lists(st.integers(0, 40), max_size=6),
        "reload": st.booleans(),
        "descending": st.booleans(),
        "tuple1": st.booleans(),
        "parallel": st.booleans(),
        "np_ids": st.sampled_from([False, False, True]),
    }), max_size=5))
    case["plan"] = steps
    case["final_reload"] = draw(st.booleans())
    case["same_object_again"] = draw(st.sampled_from([False, False, True]))
    case["aborted_first"] = draw(st.sampled_from([False, False, True]))
    case["onlooker"] = bool(case["aborted_first"]) and draw(st.booleans())
    case["reap_reload"] = draw(st.booleans())
    return case


def small_history():
    return history(max_settings=12)


@st.composite
def parallel_history(draw):
    big = draw(st.sampled_from([False, False, True]))
    case = draw(history(max_settings=40 if big else 16))
    N = n_settings(case)
    # batches with several settings each, so that a pool has work to reorder
    case["batch"] = draw(st.sampled_from(
        [["batchsize", 3], ["batchsize", 2], ["batchsize", 4],
         ["num_batches", 2], ["batchsize", 5], ["num_batches", 3]]))
    if big:
        # batches of 16 and more settings for two workers
        case["batch"] = draw(st.sampled_from(
            [["batchsize", 17], ["batchsize", 24], ["num_batches", 1],
             ["num_batches", 2], ["batchsize", 40]]))
        if case["input"] == "grid" and N < 18:
            case["args"] = [["a", list(range(5))],
                            ["b", [0.5, 1.5, 2.5, 3.5, 4.5, 5.5, 6.5]]]
    for s in case["plan"]:
        s["parallel"] = True
    # settings of uneven cost, grown by a job that reports its progress
    case["uneven"] = (not big) and draw(st.sampled_from([False, True]))
    if case["input"] == "grid" and draw(st.sampled_from([False, False,
                                                         True])):
        # an argument named like a parameter of the pool's own submit method
        taken = {a for a, _ in case["args"]}
        nm = draw(st.sampled_from(["fn", "f", "args", "executor"]))
        if nm not in taken:
            case["args"][0][0] = nm
            case["constants"].pop(nm, None)
    # the workers-inside-one-batch route is xyzpy.grow's: always taken once
    case["plan"].insert(0, {
        "how": "xyzpy.grow", "ids": draw(st.lists(
            st.integers(0, 40), min_size=1, max_size=3)),
        "reload": False, "descending": False, "tuple1": False,
        "parallel": True})
    return case


@st.composite
def samples(draw):
    a = draw(gens.values(1, 4, "int"))
    b = draw(gens.values(1, 3, "str"))
    n = draw(st.integers(1, 12))
    case = {"a": a, "b": b, "n": n, "np_seed": draw(st.integers(0, 2**31)),
            "order": draw(st.lists(st.integers(0, 20), max_size=5)),
            "reload": draw(st.booleans()),
            "shuffle": draw(st.sampled_from([False, True, 9]))}
    bt = draw(st.sampled_from(["default", "batchsize", "num_batches"]))
    if bt != "default":
        case["batch"] = [bt, draw(st.integers(1, n + 1))]
    return case


PHASES = [
    Phase("histories", run_history, strategy=history,
          examples={"quick": 4000, "thorough": 120000}),
    Phase("fresh-process", run_fresh, strategy=small_history,
          examples={"quick": 240, "thorough": 6000}, shrink=False),
    Phase("parallel-grow", run_parallel, strategy=parallel_history,
          examples={"quick": 120, "thorough": 1200}, shrink=False,
          shards={"quick": 4, "thorough": 8}),
    Phase("samples", run_samples, strategy=samples,
          examples={"quick": 300, "thorough": 3000}),
]
