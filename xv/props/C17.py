"""C17 - classic line, scatter, histogram and heat-map plots draw exactly the
data (artist readers on the returned matplotlib Figure)."""
import math
import random
import itertools

import numpy as np
from hypothesis import strategies as st

from .. import core, models
from ..core import Phase, under_test, require

ID = "C17"
LEVEL = "exploration"
RULE = (
    "cases: datasets with an x dimension (2-6 points), a z dimension "
    "(1-14 numeric or str values, so both the legend and the colour-bar "
    "regimes), optional row/col dimensions, y with its dimensions in any "
    "order, z values in ascending or shuffled order, x as coordinate or as a "
    "variable (also 2-D x and y without z), NaN/inf patterns incl. all-NaN "
    "series, optional y_err and colour variable c (with missing values of their own), multi-variable y, log "
    "axes, colors None/True/list, named colour maps (plain, reversed, log), "
    "explicit colour limits (vmin only / vmax only / both), markers, "
    "legend/colorbar overrides, legend_marker_alpha, bins; plot "
    "kinds lineplot, scatter, histogram, heatmap, auto_lineplot, "
    "auto_scatter, auto_histogram, auto_heatmap; backend Agg.  Oracle, read "
    "from the returned Figure: per Axes one Line2D / PathCollection per z "
    "value or variable, in order, labelled str(z), whose (x, y) data equal "
    "the dataset's pairs where both are finite (plain numpy reference); "
    "error-bar segments equal y +- y_err; scatter colour arrays equal c at "
    "the kept points and all series share ONE normalisation; histogram "
    "polygons decode to numpy.histogram(finite values, common edges, "
    "density=True); the heat-map QuadMesh array equals z on (y, x) with "
    "invalid cells masked and cell centres equal to the coordinates for "
    "uniform grids; in row/col grids the Axes titled '<col> = v' / labelled "
    "'<row> = v' holds exactly that slice; line colours equal the named "
    "matplotlib colour map evaluated at Normalize/LogNorm(min, max)(z or c); "
    "the dataset passed in is identical afterwards.  Non-trivial = a NaN in "
    "some but not all series, or > 10 series, or a row/col grid, or colour "
    "from a variable."
)
ASSUMPTIONS = [
    "artists are compared, not pixels; only the matplotlib backend (bokeh is "
    "not installed and the property names matplotlib)",
    "colour checks use colour maps from matplotlib's own registry; with the "
    "package's default map only 'equal value <=> equal colour' is checked",
    "float comparisons: data exact, colours to 1e-9, histogram heights to "
    "1e-9 relative",
]


def xyz():
    x = core.import_target()
    import matplotlib
    matplotlib.use("Agg")
    return x


# ------------------------------------------------------------------ dataset

def build(case):
    import xarray as xr
    rng = random.Random(case["seed"])
    nx, nz = case["nx"], case["nz"]
    if nx > 8:      # (histograms of longer series)
        xs = [0.5 + i for i in range(nx)]
    else:
        xs = sorted(rng.sample([0.5, 1.0, 1.5, 2.0, 3.0, 4.5, 6.0, 10.0],
                               nx))
    if case["ztype"] == "bool":
        # a flag that was swept (on first, then off)
        zs = [True, False][:nz]
    elif case["ztype"] == "str":
        zs = ["k%02d" % i for i in range(nz)]
    elif case["ztype"] == "float":
        zs = [0.25 + 1.5 * i for i in range(nz)]
    else:
        zs = [3 + 2 * i for i in range(nz)]
    if case.get("z_shuffled"):
        random.Random(case["seed"] + 9).shuffle(zs)   # non-monotonic order
    if case.get("coord_uint"):
        # coordinates stored as unsigned integers (np.arange(..., dtype=...))
        xs = np.array([1 + 2 * i for i in range(nx)], dtype=np.uint8)
        zs = np.array(zs, dtype=np.uint16)
    if case.get("x_desc"):
        xs = xs[::-1]           # a coordinate swept downwards
    if case.get("z_desc"):
        zs = zs[::-1]
    coords = {"x": xs, "z": zs}
    dims = ["z", "x"]
    sizes = {"x": nx, "z": nz}
    for d, key in (("r", "nrow"), ("q", "ncol")):
        if case.get(key):
            coords[d] = [10 * (i + 1) for i in range(case[key])] \
                if d == "r" else ["A", "B", "C"][:case[key]]
            dims.append(d)
            sizes[d] = case[key]
    order = list(dims)
    random.Random(case["seed"] + 1).shuffle(order)
    shape = tuple(sizes[d] for d in order)

    def data(seed, lo=-5, hi=5, positive=False):
        r = random.Random(seed)
        n = int(np.prod(shape))
        a = np.array([r.uniform(0.1 if positive else lo, hi)
                      for _ in range(n)]).reshape(shape)
        return a
    y = data(case["seed"] + 2, positive=case.get("ylog", False))
    # NaN / inf patterns
    r = random.Random(case["seed"] + 3)
    mask = np.array([r.random() < case["p_nan"] for _ in range(y.size)]
                    ).reshape(shape)
    y = np.where(mask, np.nan, y)
    if case.get("p_inf"):
        mi = np.array([r.random() < case["p_inf"] for _ in range(y.size)]
                      ).reshape(shape)
        y = np.where(mi, np.inf, y)
    if case.get("nan_series") is not None and nz > 1:
        k = case["nan_series"] % nz
        idx = [slice(None)] * len(order)
        idx[order.index("z")] = k
        y[tuple(idx)] = np.nan
    dv = {"y": (order, y)}
    dv["y2"] = (order, data(case["seed"] + 4))
    dv["ye"] = (order, np.abs(data(case["seed"] + 5)) / 10)
    dv["cc"] = (order, data(case["seed"] + 6, positive=True))
    if case.get("aux_nan"):
        # the auxiliary variables are missing at positions of their own,
        # unrelated to where y is missing
        ra = random.Random(case["seed"] + 7)
        for nm in ("ye", "cc"):
            m = np.array([ra.random() < case["aux_nan"]
                          for _ in range(y.size)]).reshape(shape)
            masked = np.where(m, np.nan, dv[nm][1])
            if nm == "cc" and np.isfinite(masked).sum() < 2:
                continue     # (a colour variable needs a range to map)
            dv[nm] = (order, masked)
    czv = [1.5 + 0.75 * i * i for i in range(nz)]
    if case.get("z_shuffled"):
        random.Random(case["seed"] + 10).shuffle(czv)
    dv["cz"] = (("z",), czv)
    if case.get("x_is_var"):
        xv = np.array([[xs[j] + 0.01 * i for j in range(nx)]
                       for i in range(nz)])
        dv["xv"] = (("z", "x"), xv)
    return xr.Dataset(dv, coords=coords)


def series_xy(sub, xname, yname, extra=()):
    """numpy reference: broadcast, flatten, keep pairs where both finite."""
    import xarray as xr
    arrs = xr.broadcast(sub[xname], sub[yname], *[sub[e] for e in extra])
    flat = [a.values.astype(float).flatten() for a in arrs]
    keep = np.isfinite(flat[0]) & np.isfinite(flat[1])
    return [f[keep] for f in flat]


def named_cmap(name, reverse):
    import matplotlib
    cm = matplotlib.colormaps[name]
    return cm.reversed() if reverse else cm


def close_all():
    import matplotlib.pyplot as plt
    plt.close("all")


def data_lines(ax):
    return [l for l in ax.get_lines()]


# ----------------------------------------------------------------- run_case

def run_case(case):
    x = xyz()
    import matplotlib
    import matplotlib.colors as mcolors
    close_all()
    ds = build(case)
    before = ds.copy(deep=True)
    kind = case["kind"]
    grid = bool(case.get("nrow") or case.get("ncol"))
    xname = "xv" if case.get("x_is_var") else "x"
    opts = {}
    for k in ("colors", "colormap", "colormap_log", "colormap_reverse",
              "markers", "legend", "colorbar", "legend_marker_alpha", "xlog",
              "ylog", "bins", "lines"):
        if case.get(k) is not None:
            opts[k] = case[k]
    if case.get("nrow"):
        opts["row"] = "r"
    if case.get("ncol"):
        opts["col"] = "q"
    zs = ds["z"].values.tolist()
    multi = case.get("multi_y")
    try:
        if kind in ("lineplot", "scatter") and case.get("no_z"):
            with under_test(kind + "(2-D x and y, no z)"):
                fig = getattr(x, kind)(ds, "xv", "y", **opts)
            ref = series_xy(ds, "xv", "y")
            ax = fig.axes[0]
            if kind == "lineplot":
                arts = data_lines(ax)
                require(len(arts) == 1, "series-count", f"{len(arts)} lines")
                gx, gy = np.asarray(arts[0].get_xdata(), float), \
                    np.asarray(arts[0].get_ydata(), float)
            else:
                arts = [c for c in ax.collections
                        if type(c).__name__ == "PathCollection"]
                require(len(arts) == 1, "series-count", f"{len(arts)}")
                off = np.asarray(arts[0].get_offsets(), float).reshape(-1, 2)
                gx, gy = off[:, 0], off[:, 1]
            got = sorted(zip(gx.tolist(), gy.tolist()))
            want = sorted(zip(ref[0].tolist(), ref[1].tolist()))
            require(got == want, "series-data",
                    lambda: f"2-D x/y without z: drawn pairs {got!r:.300} "
                            f"vs dataset pairs {want!r:.300}")
        elif kind in ("lineplot", "scatter"):
            f = getattr(x, kind)
            yarg = ["y", "y2"] if multi else "y"
            zarg = None if multi else "z"
            extra = {}
            if case.get("y_err") and not multi:
                extra["y_err"] = "ye"
            if case.get("c") and not multi:
                extra["c"] = "cz" if kind == "lineplot" else "cc"
            _LIMITS.clear()
            if not multi and (case.get("c") or (
                    case.get("colors") is True and
                    not isinstance(zs[0], str))):
                src = ds[extra["c"]].values if case.get("c") else zs
                _LIMITS.update(colour_limits(case, src))
                opts.update(_LIMITS)
            with under_test(kind):
                fig = f(ds, xname, yarg, zarg, **extra, **opts)
            check_xy(case, ds, fig, kind, xname, multi, extra, opts)
        elif kind == "histogram":
            if case.get("xlims_frac"):
                # the axis shows only part of the data range: what is binned
                # (every finite value) does not depend on that
                fin_ = ds["y"].values[np.isfinite(ds["y"].values)]
                if multi:
                    f2_ = ds["y2"].values
                    fin_ = np.concatenate([fin_, f2_[np.isfinite(f2_)]])
                if len(fin_) >= 2 and fin_.min() < fin_.max():
                    lo_, hi_ = float(fin_.min()), float(fin_.max())
                    w_ = (hi_ - lo_) * case["xlims_frac"]
                    opts["xlims"] = (lo_ + w_, hi_ - w_ / 2)
            with under_test(kind):
                fig = x.histogram(ds, ["y", "y2"] if multi else "y",
                                  z=None if multi else "z", **opts)
            check_hist(case, ds, fig, multi, opts)
        elif kind == "heatmap":
            sub = ds.isel(z=0)
            hopts = {k: v for k, v in opts.items()
                     if k in ("colormap", "colorbar", "row", "col",
                              "colormap_reverse")}
            # heat map of y over (x, r) needs a second plain dimension
            with under_test(kind):
                fig = x.heatmap(ds if "row" not in hopts and
                                "col" not in hopts else ds, "x", "z", "y",
                                **hopts)
            check_heat(case, ds, fig, hopts)
        elif kind == "auto_lineplot":
            sub = ds["y"].transpose("z", "x", ...).values
            while sub.ndim > 2:
                sub = sub[..., 0]
            with under_test(kind):
                fig = x.auto_lineplot(np.array(ds["x"].values), sub,
                                      **{k: v for k, v in opts.items()
                                         if k not in ("row", "col")})
            lines = data_lines(fig.axes[0])
            require(len(lines) == sub.shape[0], "series-count",
                    f"{len(lines)} lines for {sub.shape[0]} rows")
            for i, l in enumerate(lines):
                keep = np.isfinite(sub[i])
                require(np.array_equal(l.get_ydata(), sub[i][keep]) and
                        np.array_equal(l.get_xdata(),
                                       ds["x"].values[keep]),
                        "series-data", f"auto_lineplot row {i}")
    finally:
        close_all()
    require(ds.identical(before), "input-modified",
            "the dataset passed in was modified")
    nan_some = case["p_nan"] > 0 or case.get("nan_series") is not None
    nt = nan_some or case["nz"] > 10 or grid or bool(case.get("c"))
    return {"nontrivial": nt,
            "classes": [f"kind={kind}", "grid" if grid else "single",
                        f"ztype={case['ztype']}",
                        ">10-series" if case["nz"] > 10 else "<=10-series",
                        f"colors={case.get('colors') if not isinstance(case.get('colors'), list) else 'list'}",
                        "c-variable" if case.get("c") else "no-c",
                        "multi-y" if multi else "single-y"]}


def panels(case, ds, fig):
    """-> list of (axes, sub-dataset) for the data panels, checking titles."""
    nr, nc = case.get("nrow") or 0, case.get("ncol") or 0
    if not nr and not nc:
        return [(fig.axes[0], ds)]
    rows = ds["r"].values.tolist() if nr else [None]
    cols = ds["q"].values.tolist() if nc else [None]
    n = len(rows) * len(cols)
    require(len(fig.axes) >= n, "panel-count",
            f"{len(fig.axes)} axes for a {len(rows)}x{len(cols)} grid")
    out = []
    for i, r in enumerate(rows):
        for j, c in enumerate(cols):
            ax = fig.axes[i * len(cols) + j]
            sel = {}
            if r is not None:
                sel["r"] = r
            if c is not None:
                sel["q"] = c
            if i == 0 and c is not None:
                require(ax.get_title() == f"q = {c}", "panel-title",
                        f"panel ({i},{j}) titled {ax.get_title()!r}, "
                        f"expected 'q = {c}'")
            if j == len(cols) - 1 and r is not None:
                require(ax.get_ylabel() == f"r = {r}", "panel-row-label",
                        f"panel ({i},{j}) labelled {ax.get_ylabel()!r}, "
                        f"expected 'r = {r}'")
            out.append((ax, ds.loc[sel]))
    return out


_LIMITS = {}


def colour_limits(case, values):
    """Explicit colour limits asked for by the case (one-sided or both),
    placed outside the data range."""
    lim = case.get("limit")
    out = {}
    if not lim:
        return out
    v = np.asarray(values, dtype=float)
    lo, hi = float(np.nanmin(v)), float(np.nanmax(v))
    span = (hi - lo) or 1.0
    if lim in ("vmin", "both"):
        out["vmin"] = lo / 2 if case.get("colormap_log") else lo - span / 2
    if lim in ("vmax", "both"):
        out["vmax"] = hi * 2 if case.get("colormap_log") else hi + span / 4
    return out


def expected_norm(case, values):
    import matplotlib.colors as mcolors
    v = np.asarray(values, dtype=float)
    cls = mcolors.LogNorm if case.get("colormap_log") else mcolors.Normalize
    lo, hi = float(np.nanmin(v)), float(np.nanmax(v))
    if all(isinstance(b, (bool, np.bool_)) for b in values):
        # a flag has the fixed range off..on (that is also what the colour
        # bar shows), whichever of its two values occur
        lo, hi = 0.0, 1.0
    return cls(vmin=_LIMITS.get("vmin", lo), vmax=_LIMITS.get("vmax", hi))


def check_xy(case, ds, fig, kind, xname, multi, extra, opts):
    import matplotlib.colors as mcolors
    zs = ds["z"].values.tolist()
    series = ["y", "y2"] if multi else zs
    all_colors = []
    for ax, sub in panels(case, ds, fig):
        if kind == "lineplot":
            arts = data_lines(ax)
        else:
            arts = [c for c in ax.collections
                    if type(c).__name__ == "PathCollection"]
        require(len(arts) == len(series), "series-count",
                f"{len(arts)} drawn series for {len(series)} "
                f"{'variables' if multi else 'z values'}")
        for i, (art, s) in enumerate(zip(arts, series)):
            if multi:
                ssub, yname = sub, s
            else:
                ssub, yname = sub.isel(z=i), "y"
            names = [e for e in ("ye" if "y_err" in extra else None,
                                 extra.get("c") if kind == "scatter"
                                 else None) if e]
            ref = series_xy(ssub, xname, yname, names)
            if kind == "lineplot":
                gx, gy = np.asarray(art.get_xdata(), float), \
                    np.asarray(art.get_ydata(), float)
            else:
                off = np.asarray(art.get_offsets(), float).reshape(-1, 2)
                gx, gy = off[:, 0], off[:, 1]
            require(np.array_equal(gx, ref[0]) and
                    np.array_equal(gy, ref[1]), "series-data",
                    lambda: f"series {i} ({s!r}): drawn x={gx.tolist()} "
                            f"y={gy.tolist()}; dataset pairs x="
                            f"{ref[0].tolist()} y={ref[1].tolist()}")
            label = art.get_label()
            if kind == "lineplot" and "y_err" in extra:
                # error-bar plots carry the label on their container
                label = [c for c in ax.containers
                         if type(c).__name__ == "ErrorbarContainer"][
                             i].get_label()
            require(label == str(s), "series-label",
                    f"series {i} labelled {label!r}, expected {str(s)!r}")
            if kind == "scatter" and extra.get("c"):
                arr = np.ma.filled(np.ma.asarray(art.get_array(), float),
                                   np.nan)
                cref = ref[-1]
                require(np.array_equal(arr, cref, equal_nan=True),
                        "scatter-colour-data",
                        f"series {i}: colour array {arr.tolist()} vs c at "
                        f"the kept points {cref.tolist()}")
                norm = expected_norm(case, ds["cc"].values)
                # (a colour variable with ONE distinct finite value has no
                # range: matplotlib widens such a norm by itself)
                if len(arr) and norm.vmin < norm.vmax:
                    art.autoscale_None()
                    require(abs(art.norm.vmin - norm.vmin) < 1e-12 and
                            abs(art.norm.vmax - norm.vmax) < 1e-12,
                            "scatter-colour-normalisation",
                            f"series {i} is normalised on "
                            f"[{art.norm.vmin}, {art.norm.vmax}] but the "
                            f"colour variable spans [{norm.vmin}, "
                            f"{norm.vmax}]: equal c values get different "
                            f"colours in different series")
            if kind == "lineplot":
                all_colors.append((i, mcolors.to_rgba(art.get_color())))
            elif not extra.get("c") and len(ref[0]):
                # one colour per series, whatever the number of points
                art.update_scalarmappable()
                fcs = np.asarray(art.get_facecolors(), float)
                require(len(fcs) >= 1 and np.allclose(fcs, fcs[0]),
                        "scatter-series-colour",
                        lambda: f"series {i} ({len(ref[0])} points) is drawn "
                                f"with several colours: {fcs.tolist()!r:.300}")
                all_colors.append((i, tuple(fcs[0][:3]) + (1.0,)))
        if kind == "lineplot" and "y_err" in extra:
            segs = [c for c in ax.collections
                    if type(c).__name__ == "LineCollection"]
            require(len(segs) == len(series), "errorbar-count",
                    f"{len(segs)} error-bar collections")
            for i, lc in enumerate(segs):
                ref = series_xy(sub.isel(z=i), xname, "y", ["ye"])
                # raw path vertices (get_segments() cleans NaN vertices away)
                got = np.asarray([np.asarray(p.vertices, float)
                                  for p in lc.get_paths()],
                                 float).reshape(-1, 2, 2)
                want = np.stack([np.stack([ref[0], ref[1] - ref[2]], 1),
                                 np.stack([ref[0], ref[1] + ref[2]], 1)], 1)
                # a point without an error value has no bar (matplotlib blanks
                # the whole segment), the point itself is still on the line
                want[~np.isfinite(ref[2])] = np.nan
                require(got.shape == want.shape and
                        np.allclose(got, want, rtol=0, atol=1e-12,
                                    equal_nan=True),
                        "errorbar-data", f"series {i} error bars")
    # ---- colours from z or from the colour variable
    use_c = kind == "lineplot" and extra.get("c")
    if kind == "scatter" and extra.get("c"):
        all_colors = []
    if all_colors and (case.get("colors") is True or use_c) \
            and not multi:
        vals = ds["cz"].values.tolist() if use_c else zs
        if isinstance(vals[0], str):
            rel = np.linspace(0, 1, len(vals))
        else:
            rel = [float(expected_norm(case, vals)(v)) for v in vals]
        name = case.get("colormap")
        for (i, got) in all_colors:
            if name is not None:
                want = named_cmap(name, case.get("colormap_reverse"))(rel[i])
                require(np.allclose(got[:3], want[:3], atol=1e-9),
                        "line-colour",
                        f"series {i} (value {vals[i]!r}) has colour "
                        f"{tuple(round(g, 4) for g in got)}, the map "
                        f"{name} at {rel[i]:.4f} is "
                        f"{tuple(round(w, 4) for w in want)}")
        # relational: equal value <=> equal colour within the figure
        for (i, a), (j, b) in itertools.combinations(all_colors, 2):
            same_val = abs(rel[i] - rel[j]) < 1e-12
            if same_val:
                require(np.allclose(a[:3], b[:3], atol=1e-9),
                        "line-colour-relation",
                        f"series {i} and {j} have the same value but "
                        f"different colours")
    if isinstance(case.get("colors"), list) and all_colors and not use_c:
        for (i, got) in all_colors:
            want = mcolors.to_rgba(case["colors"][i % len(case["colors"])])
            require(np.allclose(got[:3], want[:3], atol=1e-9),
                    "explicit-colour",
                    f"series {i}: colour {got} vs requested {want}")


def check_hist(case, ds, fig, multi, opts):
    series = ["y", "y2"] if multi else ds["z"].values.tolist()
    bins = case.get("bins") or 30
    for ax, sub in panels(case, ds, fig):
        data = []
        for i, s in enumerate(series):
            v = (sub[s] if multi else sub["y"].isel(z=i)).values.flatten()
            data.append(v[np.isfinite(v)])
        polys = [p for p in ax.patches if type(p).__name__ == "Polygon"]
        require(len(polys) == len(series), "series-count",
                f"{len(polys)} histogram polygons for {len(series)} series")
        allv = np.concatenate(data)
        edges = np.histogram_bin_edges(allv, bins)
        by_label = {p.get_label(): p for p in polys}
        for i, s in enumerate(series):
            require(str(s) in by_label, "series-label",
                    f"no polygon labelled {str(s)!r}: "
                    f"{sorted(by_label)}")
            xy = np.asarray(by_label[str(s)].get_xy(), float)
            n = len(edges) - 1
            got_edges = np.append(xy[0:2 * n:2, 0], xy[2 * n, 0])
            got_h = xy[1:2 * n + 1:2, 1]
            want_h, _ = np.histogram(data[i], bins=edges, density=True)
            require(np.allclose(got_edges, edges, rtol=1e-9, atol=1e-12),
                    "histogram-edges", f"series {s!r}: edges differ")
            require(np.allclose(got_h, want_h, rtol=1e-9, atol=1e-12,
                                equal_nan=True), "histogram-heights",
                    lambda: f"series {s!r}: heights {got_h.tolist()} vs "
                            f"numpy.histogram {want_h.tolist()}")


def check_heat(case, ds, fig, hopts):
    for ax, sub in panels(case, ds, fig):
        qms = [c for c in ax.collections if type(c).__name__ == "QuadMesh"]
        require(len(qms) == 1, "quadmesh-count", f"{len(qms)} meshes")
        qm = qms[0]
        want = sub["y"].transpose("z", "x").values.astype(float)
        arr = np.ma.asarray(qm.get_array())
        got = np.ma.filled(arr.astype(float), np.nan).reshape(want.shape)
        wantm = np.where(np.isfinite(want), want, np.nan)
        require(np.array_equal(got, wantm, equal_nan=True), "heatmap-data",
                lambda: f"mesh array {got.tolist()} vs z on (y, x) "
                        f"{wantm.tolist()}")
        if case.get("colormap") is not None:
            # the mesh is coloured with the chosen map (reversed if asked)
            want_cm = named_cmap(case["colormap"],
                                 case.get("colormap_reverse"))
            for v_ in (0.0, 0.2, 0.7, 1.0):
                require(np.allclose(qm.get_cmap()(v_), want_cm(v_),
                                    atol=1e-9), "heatmap-colour-map",
                        f"the mesh maps {v_} to "
                        f"{tuple(round(c, 4) for c in qm.get_cmap()(v_))}, "
                        f"the chosen map {case['colormap']}"
                        f"{' reversed' if case.get('colormap_reverse') else ''}"
                        f" gives {tuple(round(c, 4) for c in want_cm(v_))}")
        coords = np.asarray(qm.get_coordinates(), float)
        xs = np.asarray(sub["x"].values, float)
        ys = np.asarray(sub["z"].values, float)
        ex, ey = coords[0, :, 0], coords[:, 0, 1]
        require(len(ex) == len(xs) + 1 and len(ey) == len(ys) + 1,
                "mesh-shape", f"{coords.shape}")
        for edges_, cs_, nm in ((ex, xs, "x"), (ey, ys, "y")):
            # edges run the way the coordinate does and enclose its values
            up = cs_[-1] >= cs_[0]
            d_ = np.diff(edges_)
            require(np.all(d_ > 0) if up else np.all(d_ < 0),
                    "mesh-orientation",
                    f"{nm} edges {edges_.tolist()} for coordinates "
                    f"{cs_.tolist()}")
            # (for non-uniform coordinates the package shifts by half the
            # MEAN spacing, a stated heuristic: only uniform grids are
            # required to be centred, below)
        for edges_, cs_, nm in ((ex, xs, "x"), (ey, ys, "y")):
            d = np.diff(cs_)
            if len(cs_) > 1 and np.allclose(d, d[0]):
                cen = (edges_[:-1] + edges_[1:]) / 2
                require(np.allclose(cen, cs_, atol=1e-9), "mesh-centres",
                        f"{nm} cell centres {cen.tolist()} vs coordinates "
                        f"{cs_.tolist()}")


# ----------------------------------------------------------------- strategy

@st.composite
def strategy(draw):
    kind = draw(st.sampled_from(["lineplot", "lineplot", "scatter",
                                 "histogram", "heatmap", "auto_lineplot"]))
    nz = draw(st.sampled_from([1, 2, 3, 4, 6, 10, 11, 14]))
    case = {"kind": kind, "seed": draw(st.integers(0, 2**20)),
            "nx": draw(st.integers(2, 6)), "nz": nz,
            "ztype": draw(st.sampled_from(["int", "float", "str"])),
            "p_nan": draw(st.sampled_from([0.0, 0.0, 0.2, 0.5])),
            "p_inf": draw(st.sampled_from([0.0, 0.0, 0.1])),
            "nan_series": draw(st.none() | st.integers(0, 13))}
    if kind in ("lineplot", "scatter", "histogram"):
        g = draw(st.sampled_from(["none", "none", "row", "col", "both"]))
        if g in ("row", "both"):
            case["nrow"] = draw(st.integers(1, 3))
        if g in ("col", "both"):
            case["ncol"] = draw(st.integers(1, 3))
        case["multi_y"] = draw(st.sampled_from([False, False, True]))
        if case["multi_y"] and kind != "histogram":
            case["nz"] = 1          # several variables instead of a z sweep
    if kind == "auto_lineplot" and case["nz"] == case["nx"]:
        case["nx"] = case["nz"] + 1     # square input is ambiguous by design
    if kind == "heatmap":
        case["ztype"] = draw(st.sampled_from(["int", "float"]))
        case["nz"] = max(2, min(nz, 6))
        case["nan_series"] = None
        case["colormap"] = draw(st.sampled_from([None, "viridis"]))
        case["colorbar"] = draw(st.sampled_from([None, False, True]))
        case["colormap_reverse"] = draw(st.sampled_from([None, None, True]))
        case["x_desc"] = draw(st.sampled_from([False, False, True]))
        case["coord_uint"] = case["ztype"] == "int" and \
            draw(st.sampled_from([False, False, True]))
        case["z_desc"] = draw(st.sampled_from([False, False, True]))
        return case
    if kind == "histogram":
        case["nan_series"] = None
        case["p_nan"] = min(case["p_nan"], 0.2)
        case["bins"] = draw(st.sampled_from([None, 5, 12]))
        case["xlims_frac"] = draw(st.sampled_from([None, None, 0.2, 0.35]))
        case["nx"] = draw(st.sampled_from([6, 6, 25, 40]))
        return case
    if kind in ("lineplot", "scatter"):
        case["x_is_var"] = draw(st.sampled_from([False, False, True])) \
            and not case.get("multi_y")
        case["z_shuffled"] = draw(st.sampled_from([False, True]))
        if case["x_is_var"] and not case.get("nrow") and \
                not case.get("ncol") and draw(st.booleans()):
            # one series, x and y both 2-D (often square, dims in any order)
            case["no_z"] = True
            if draw(st.booleans()):
                case["nz"] = case["nx"]
        case["colors"] = draw(st.sampled_from(
            [None, None, True, True, ["red", "blue", "green"]]))
        case["colormap"] = draw(st.sampled_from(
            [None, "viridis", "plasma", "coolwarm", "tab10", "Set1"]))
        case["colormap_reverse"] = draw(st.sampled_from([None, True]))
        if not case.get("multi_y") and not case.get("no_z") and \
                draw(st.sampled_from([False, False, False, True])):
            case["ztype"] = "bool"
            case["nz"] = min(case["nz"], 2)
        if case["ztype"] not in ("str", "bool"):
            case["colormap_log"] = draw(st.sampled_from([None, None, True]))
        case["markers"] = draw(st.sampled_from([None, True, False]))
        case["legend"] = draw(st.sampled_from([None, None, True, False]))
        case["colorbar"] = draw(st.sampled_from([None, None, True, False]))
        case["xlog"] = draw(st.sampled_from([None, True]))
        case["ylog"] = draw(st.sampled_from([None, None, True]))
        if kind == "lineplot":
            case["y_err"] = draw(st.sampled_from([False, False, True]))
            case["legend_marker_alpha"] = draw(st.sampled_from(
                [None, None, 0.5]))
        if case.get("no_z"):
            case["colors"] = None
            case["y_err"] = False
            case["colorbar"] = None
        elif draw(st.sampled_from([False, False, True])) and \
                not case.get("multi_y"):
            case["c"] = True
            case["colors"] = None
        case["limit"] = draw(st.sampled_from([None, None, "vmin", "vmax",
                                              "both"]))
        if case.get("y_err") or (case.get("c") and kind == "scatter"):
            case["aux_nan"] = draw(st.sampled_from([0.0, 0.3]))
        if case.get("multi_y") and case["colors"] is True:
            case["colors"] = None
        # a colour bar only makes sense with a colour mapping
        if case["colorbar"] is True and not (case["colors"] is True or
                                             case.get("c")):
            case["colorbar"] = None
    return case


PHASES = [
    Phase("figures", run_case, strategy=strategy,
          examples={"quick": 1600, "thorough": 50000}),
]
