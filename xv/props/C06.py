"""C06 - a crop attached to a Runner, Harvester or Sampler reaps what a direct
run gives (differential: crop path vs direct path in a twin directory)."""
import os
import itertools

import numpy as np
from hypothesis import strategies as st

from .. import core, gens, models, crops, labelled
from ..core import Phase, under_test, require
from . import C03

ID = "C06"
LEVEL = "exploration"
RULE = (
    "cases: runner descriptions as in C03 (1-3 variables, internal "
    "dimensions, var_dims spellings, coordinates from var_coords or from a "
    "constant naming the dimension, plain constants, resources, attrs, "
    "Dataset-valued functions) x inputs (grid / case set) x batching x "
    "shuffle x grow order x farmer kind {Runner, Runner->DataFrame, "
    "Harvester, Sampler} x overwrite policy x pre-existing harvested data "
    "(identical or conflicting epoch; harvested by another session or by the "
    "farmer itself; or a Harvester constructed with full_ds= and no file yet) "
    "x a first sow with other values and a look at the progress before the "
    "real sow x an intermediate harvest of other points by another "
    "session between sow and reap x reload of the crop by name (farmer "
    "unpickled, function re-attached) before grow and/or before reap.  "
    "Oracle (differential + independent): the reaped Dataset equals, "
    "variable by variable after aligning dimension order, the Dataset of "
    "runner.run_combos / run_cases on the same inputs (coordinates, values, "
    "attrs), and also passes the by-label oracle of C03; it is the farmer's "
    "last_ds / last_df; the Harvester / Sampler file after the reap equals "
    "the file a direct harvest / sample of the same settings leaves in a twin "
    "directory (same exception class if the policy refuses the merge); "
    "DataFrames are compared as row multisets and row-wise recomputed.  "
    "Non-trivial = a constant naming an internal dimension, or resources, or "
    "a reload, or a DataFrame with shuffle, or pre-existing data."
)
ASSUMPTIONS = [
    "constants are given to the Runner or, for one sweep, to the sow call / "
    "the direct call",
    "variables are compared after transposing to the direct run's dimension "
    "order (crops sort the swept arguments by name)",
]


def xyz():
    return core.import_target()


def same_dataset(a, b, tag):
    """a (crop path) equals b (direct path) up to dimension order."""
    import xarray as xr
    require(type(a) is type(b), "ds-type",
            f"{tag}: {type(a).__name__} (crop) vs {type(b).__name__}")
    if isinstance(a, xr.DataArray):
        def conv(d):
            attrs = dict(d.attrs)
            d = d.to_dataset(name=d.name or "unnamed")
            d.attrs = attrs
            return d
        a, b = conv(a), conv(b)
    require(set(a.data_vars) == set(b.data_vars), "ds-variables",
            f"{tag}: {sorted(a.data_vars)} vs {sorted(b.data_vars)}")
    require(set(a.coords) == set(b.coords), "ds-coords",
            f"{tag}: coords {sorted(a.coords)} (crop) vs {sorted(b.coords)} "
            f"(direct)")
    for c in b.coords:
        require(a[c].dims == b[c].dims and models.deep_eq(
            list(a[c].values.tolist()), list(b[c].values.tolist())),
            "ds-coord-values",
            f"{tag}: coord {c}: {a[c].values.tolist()} (crop) vs "
            f"{b[c].values.tolist()} (direct)")
    for v in b.data_vars:
        require(set(a[v].dims) == set(b[v].dims), "ds-var-dims",
                f"{tag}: {v}: {a[v].dims} (crop) vs {b[v].dims} (direct)")
        av = a[v].transpose(*b[v].dims).values
        require(av.shape == b[v].values.shape and np.array_equal(
            av.astype(float), b[v].values.astype(float), equal_nan=True),
            "ds-values", lambda: f"{tag}: {v}: crop {av.tolist()!r:.200} vs "
                                 f"direct {b[v].values.tolist()!r:.200}")
    require(set(a.attrs) == set(b.attrs) and all(
        models.deep_eq(a.attrs[k], b.attrs[k]) for k in b.attrs), "ds-attrs",
        f"{tag}: attrs {dict(a.attrs)!r:.300} (crop) vs "
        f"{dict(b.attrs)!r:.300} (direct)")


def df_rows(df):
    cols = sorted(df.columns)
    rows = []
    for i in range(len(df)):
        rows.append(tuple((c, repr(models.plain(df.iloc[i][c])))
                          for c in cols))
    return sorted(rows)


def same_dataframe(a, b, tag):
    require(sorted(a.columns) == sorted(b.columns), "df-columns",
            f"{tag}: {sorted(a.columns)} (crop) vs {sorted(b.columns)}")
    require(df_rows(a) == df_rows(b), "df-rows",
            lambda: f"{tag}: crop rows {df_rows(a)!r:.400} vs direct "
                    f"{df_rows(b)!r:.400}")


def build_runner(x, desc, epoch=0):
    spec = {"vars": desc["vars"], "sizes": desc["sizes"], "ret": desc["ret"],
            "log": None, "epoch": epoch}
    fn = labelled.make_fn(spec)
    names = [n for n, _ in desc["vars"]]
    xobj = desc["ret"] in ("dataset", "dataarray", "dict")
    if xobj:
        var_names = var_dims = var_coords = None
    else:
        var_names = names[0] if desc["names_spelling"] == "str" else \
            tuple(names)
        var_dims = C03.spell_var_dims(desc["vars"], desc["dims_spelling"])
        var_coords = {d: labelled.INTERNAL_DIMS[d][:desc["sizes"][d]]
                      for d, how in desc["dim_coords"].items()
                      if how == "coords"} or None
    dim_consts = {d: labelled.INTERNAL_DIMS[d][:desc["sizes"][d]]
                  for d, how in desc["dim_coords"].items()
                  if how == "constant"}
    consts = dict(desc["constants"])
    consts.update(dim_consts)
    r = x.Runner(fn, var_names, fn_args=None, var_dims=var_dims,
                 var_coords=var_coords, constants=consts or None,
                 resources=dict(desc["resources"]) or None,
                 attrs=dict(desc["attrs"]) or None)
    return r, spec, consts, var_coords, xobj


def run_case(case):
    x = xyz()
    from xyzpy.utils import XYZError
    desc = case["desc"]
    farmer_kind = case["farmer"]
    to_df = farmer_kind in ("runner_df", "sampler")
    with core.scratch("xv-c06-") as root:
        main, twin = os.path.join(root, "main"), os.path.join(root, "twin")
        os.makedirs(main), os.makedirs(twin)

        def make(d):
            r, spec, consts, var_coords, xobj = build_runner(x, desc)
            if farmer_kind == "harvester":
                f = x.Harvester(r, data_name=os.path.join(d, case["dname"]),
                                engine=case.get("engine", "h5netcdf"))
            elif farmer_kind == "sampler":
                f = x.Sampler(r, data_name=os.path.join(d, "samples.pkl"),
                              default_combos={a: list(v)
                                              for a, v in case["args"]})
            else:
                f = r
            return f, r, spec, consts, var_coords, xobj

        fm, rm, spec, consts, var_coords, xobj = make(main)
        ft, rt, _, _, _, _ = make(twin)
        extra = {**desc["resources"], **consts}
        # a constant given for this sweep only (at sow / with the direct
        # call), overriding what the runner has stored
        skw = {}
        plain_ = sorted(k for k in desc["constants"]
                        if k not in desc["resources"])
        if case.get("sow_consts") and plain_ and \
                farmer_kind in ("runner", "runner_df", "harvester"):
            skw = {"constants": {plain_[0]: "for-this-sweep"}}
            consts = dict(consts, **skw["constants"])
            extra = dict(extra, **skw["constants"])

        def shifted(v):
            """a value of the same family that is not swept"""
            if isinstance(v, str):
                return v + "_o"
            return v + 1000

        # ------- a farmer that starts from data handed to its constructor
        # (held in memory only: there is no file yet)
        init = None
        if case.get("init_full") and farmer_kind == "harvester" and \
                case["mode"] == "combos" and not case.get("pre"):
            a0, v0 = case["args"][0]
            init = {a: ([shifted(v[0])] if a == a0 else list(v))
                    for a, v in case["args"]}
            for which in ("main", "twin"):
                ri, _, _, _, _ = build_runner(x, desc)
                with under_test("initial dataset"):
                    ids_ = ri.run_combos(init, verbosity=0)
                f_old = fm if which == "main" else ft
                f_new = x.Harvester(f_old.runner, data_name=f_old.data_name,
                                    engine=f_old.engine, full_ds=ids_)
                if which == "main":
                    fm = f_new
                else:
                    ft = f_new

        # ------- inputs
        if case["mode"] == "combos":
            args = case["args"]
            fn_args = [a for a, _ in args]
            combos = {a: list(v) for a, v in args}
            coords = {a: list(v) for a, v in args}
            settings = list(itertools.product(*[v for _, v in args]))
        else:
            cs = case["cases"]
            case_args = list(cs["args"])
            sub = case.get("subgrid") or []
            fn_args = case_args + [a for a, _ in sub]
            cases_in = [tuple(c) for c in cs["cases"]]
            sub_combos = ({a: list(v) for a, v in sub}
                          if case.get("sub_spelling") == "dict" else
                          tuple((a, list(v)) for a, v in sub)) if sub else None
            own_args = bool(case.get("runner_fn_args")) and \
                farmer_kind != "sampler" and not case.get("case_dicts")
            if own_args:
                # the runner itself says in which order positional cases are
                # to be read (the function takes **kwargs: no signature)
                rm.fn_args = tuple(fn_args)
                rt.fn_args = tuple(fn_args)
            coords = {a: sorted(set(c[i] for c in cs["cases"]))
                      for i, a in enumerate(case_args)}
            coords.update({a: list(v) for a, v in sub})
            settings = [c + sv for c in cases_in for sv in
                        itertools.product(*[v for _, v in sub])]

        # ------- pre-existing harvested data (both directories alike)
        pre = case.get("pre")
        if farmer_kind == "harvester" and pre:
            for f in (fm, ft):
                rp, _, _, _, _ = build_runner(x, desc, epoch=pre["epoch"])
                hp = x.Harvester(rp, data_name=f.data_name, engine=f.engine)
                if pre.get("by_farmer") and pre["epoch"] == 0:
                    # the farmer itself did the earlier harvest, so it holds
                    # the full dataset in memory when the crop is sown
                    hp = f
                if case["mode"] == "combos":
                    sub = {a: list(v)[:max(1, len(v) - pre["drop"])]
                           for a, v in case["args"]}
                    with under_test("pre-harvest"):
                        hp.harvest_combos(sub, verbosity=0)
                else:
                    with under_test("pre-harvest"):
                        hp.harvest_cases(cases_in[:max(1, len(cases_in) -
                                                       pre["drop"])],
                                         fn_args=tuple(case_args),
                                         combos=sub_combos, verbosity=0)

        # ------- a neighbour: another study in the same directory whose crop
        # name differs from ours only by case
        sib = None
        if case.get("sibling"):
            sib_combos = {"a": [7, 8, 9]}
            with under_test("sibling crop"):
                sib = x.Crop(fn=crops.record("int", None), name="C6",
                             parent_dir=main, batchsize=2)
                sib.sow_combos(sib_combos, verbosity=0)
            sib_digest = crops.tree_digest(crops.crop_dir(main, "C6"))

        # ------- crop path
        bkw = {case["batch"][0]: case["batch"][1]} if case.get("batch") else {}
        models.LOG.clear()
        onlooker = None
        with under_test("sow"):
            if case.get("ctor_shuffle"):
                # (for cases and samples too: the crop's own setting is what
                # sow_cases / sow_samples sow with)
                import xyzpy.gen.cropping as cropping
                crop = cropping.Crop(farmer=fm, name="c6", parent_dir=main,
                                     shuffle=case["ctor_shuffle"], **bkw)
            else:
                crop = fm.Crop(name="c6", parent_dir=main, **bkw)
            if case.get("decoy_sow"):
                # the crop is first sown with OTHER values, looked at, and
                # then sown with the real ones (same amount of work)
                if farmer_kind == "sampler":
                    np.random.seed(case["np_seed"] + 1)
                    crop.sow_samples(case["n"], verbosity=0)
                elif case["mode"] == "combos":
                    crop.sow_combos({a: [shifted(v_) for v_ in v]
                                     for a, v in combos.items()}, verbosity=0)
                else:
                    crop.sow_cases(tuple(case_args),
                                   [tuple(shifted(v_) for v_ in c)
                                    for c in cases_in],
                                   combos=sub_combos, verbosity=0)
                str(crop), crop.num_results, crop.missing_results()
                crop.is_ready_to_reap()
                if case.get("onlooker"):
                    # somebody opens the crop by name now, looks at it, and
                    # will be the one who reaps it after the real sow
                    onlooker = x.Crop(name="c6", parent_dir=main)
                    str(onlooker), onlooker.num_results
                if case["decoy_sow"] == "reload":
                    # the real sow is done by somebody who only knows the
                    # crop's name and directory (farmer unpickled from it)
                    crop = x.Crop(name="c6", parent_dir=main)
            if farmer_kind == "sampler":
                np.random.seed(case["np_seed"])
                crop.sow_samples(case["n"], verbosity=0)
            elif case["mode"] == "combos":
                if case.get("ctor_shuffle"):
                    crop.sow_combos(combos, verbosity=0, **skw)  # no shuffle
                else:
                    crop.sow_combos(combos, shuffle=case.get("shuffle",
                                                             False),
                                    verbosity=0, **skw)
            elif case.get("case_dicts"):
                # the cases written as dicts, their keys in varying order
                dcs = []
                for i_, c_ in enumerate(cases_in):
                    it_ = list(zip(case_args, c_))
                    r_ = (i_ + 1) % len(it_)
                    dcs.append(dict(it_[r_:] + it_[:r_]))
                crop.sow_cases(None, dcs, combos=sub_combos, verbosity=0,
                               **skw)
            else:
                crop.sow_cases(None if own_args else tuple(case_args),
                               cases_in, combos=sub_combos, verbosity=0,
                               **skw)
        B = len(crops.batch_ids(main, "c6"))
        reloaded = False
        if case.get("reload_before_grow"):
            with under_test("reload crop by name"):
                crop = x.Crop(name="c6", parent_dir=main)
            reloaded = True
        order = []
        for i in case["order"]:
            i = i % B + 1
            if i not in order:
                order.append(i)
        with under_test("grow"):
            for i in order:
                if case.get("grow_workers"):
                    # what a cluster array task with num_workers does
                    x.grow(i, crop=crop, num_workers=2, verbosity=0)
                else:
                    crop.grow(i)
            crop.grow_missing()
        between = None
        if farmer_kind == "harvester" and case.get("between") and \
                case["mode"] == "combos":
            # somebody else harvests OTHER points into the same file while the
            # crop is out growing (in both directories alike)
            a0, v0 = case["args"][0]
            extra_lab = "zz-extra" if isinstance(v0[0], str) else \
                (max(v0) + 1000 if all(isinstance(q, int) for q in v0)
                 else max(v0) + 1000.5)
            between = {a: ([extra_lab] if a == a0 else list(v))
                       for a, v in case["args"]}
            for f in (fm, ft):
                rb, _, _, _, _ = build_runner(x, desc)
                hb = x.Harvester(rb, data_name=f.data_name, engine=f.engine)
                with under_test("intermediate harvest by another session"):
                    hb.harvest_combos(between, verbosity=0)
        if case.get("reload_before_reap"):
            with under_test("reload crop by name"):
                crop = x.Crop(name="c6", parent_dir=main)
            reloaded = True
        if onlooker is not None:
            crop = onlooker
            reloaded = True
        farmer_now = crop.farmer
        ropts = {}
        if farmer_kind == "harvester":
            ropts["overwrite"] = case.get("overwrite")
        crop_exc = None
        try:
            with under_test("reap", expect=(Exception,)):
                if farmer_kind == "runner_df":
                    got = crop.reap_runner(farmer_now, to_df=True)
                else:
                    got = crop.reap(**ropts)
        except core.PropertyViolation:
            raise
        except Exception as e:  # compared with the direct path below
            crop_exc = e

        # ------- direct path (twin directory)
        direct_exc = None
        try:
            if farmer_kind == "sampler":
                np.random.seed(case["np_seed"])
                want = ft.sample_combos(case["n"], verbosity=0)
            elif farmer_kind == "harvester":
                if case["mode"] == "combos":
                    ft.harvest_combos(combos, overwrite=case.get("overwrite"),
                                      verbosity=0, **skw)
                else:
                    ft.harvest_cases(cases_in,
                                     fn_args=None if own_args else
                                     tuple(case_args),
                                     combos=sub_combos,
                                     overwrite=case.get("overwrite"),
                                     verbosity=0, **skw)
                want = ft.last_ds
            else:
                kw = {"to_df": True} if to_df else {}
                if case["mode"] == "combos":
                    want = rt.run_combos(combos, verbosity=0, **kw, **skw)
                else:
                    want = rt.run_cases(cases_in,
                                        fn_args=None if own_args else
                                        tuple(case_args),
                                        combos=sub_combos, verbosity=0, **kw,
                                        **skw)
        except Exception as e:
            direct_exc = e

        if direct_exc is not None or crop_exc is not None:
            require(type(direct_exc) is type(crop_exc),
                    "crop-and-direct-disagree-on-error",
                    f"crop path: {crop_exc!r:.300}; direct path: "
                    f"{direct_exc!r:.300}")
            require(os.path.isdir(crops.crop_dir(main, "c6")),
                    "crop-deleted-by-failed-reap",
                    f"reap raised {crop_exc!r:.200} but the crop is gone")
            return {"nontrivial": True,
                    "classes": [f"farmer={farmer_kind}", "merge-refused"]}

        # ------- compare
        if to_df:
            same_dataframe(got, want, "reaped vs direct")
            if farmer_kind != "sampler":
                labelled.check_dataframe(
                    got, spec=spec, fn_args=fn_args, settings=settings,
                    fn_kwargs_extra=extra, constants=consts,
                    resources=desc["resources"], attrs=desc["attrs"],
                    tag="reaped")
            else:
                labelled.check_dataframe(
                    got, spec=spec, fn_args=fn_args, settings=None,
                    fn_kwargs_extra=extra, constants=consts,
                    resources=desc["resources"], attrs=desc["attrs"],
                    tag="reaped", n_rows=case["n"])
            last = farmer_now.last_df if farmer_kind == "sampler" else \
                farmer_now._last_df
            require(last is got, "last_df-not-reaped-object",
                    "farmer.last_df is not the reaped DataFrame")
        else:
            same_dataset(got, want, "reaped vs direct")
            labelled.check_dataset(
                got, spec=spec, fn_args=fn_args, coords=coords,
                requested=(None if case["mode"] == "combos" else
                           {tuple(models.plain(v) for v in s)
                            for s in settings}),
                fn_kwargs_extra=extra, constants=consts,
                resources=desc["resources"], attrs=desc["attrs"],
                var_coords=var_coords, explicit_names=False, tag="reaped")
            require(farmer_now.last_ds is got, "last_ds-not-reaped-object",
                    "farmer.last_ds is not the reaped Dataset")
        if farmer_kind == "harvester":
            with under_test("load files"):
                a = x.load_ds(fm.data_name, engine=fm.engine)
                b = x.load_ds(ft.data_name, engine=ft.engine)
            same_dataset(a, b, "harvester file: crop vs direct")
            if between is not None:
                a0 = case["args"][0][0]
                require(between[a0][0] in a[a0].values.tolist(),
                        "intermediate-harvest-lost",
                        f"the point {a0}={between[a0][0]!r} harvested by "
                        f"another session while the crop was growing is no "
                        f"longer in the file: {a[a0].values.tolist()}")
            full = farmer_now.full_ds
            same_dataset(full, a, "harvester full_ds vs its file")
        if farmer_kind == "sampler":
            with under_test("load files"):
                a = x.load_df(fm.data_name)
                b = x.load_df(ft.data_name)
            same_dataframe(a, b, "sampler file: crop vs direct")
            same_dataframe(farmer_now.full_df, a, "sampler full_df vs file")
        require(not os.path.exists(crops.crop_dir(main, "c6")),
                "crop-not-cleaned", "crop directory left after reap")
        if sib is not None:
            require(os.path.isdir(crops.crop_dir(main, "C6")) and
                    crops.tree_digest(crops.crop_dir(main, "C6")) ==
                    sib_digest, "neighbour-crop-touched",
                    "the crop 'C6' of another study in the same directory "
                    "was changed by sowing / growing / reaping the crop 'c6'")
            with under_test("neighbour crop: grow and reap"):
                sib.grow_missing()
                got_s = sib.reap()
            want_s = tuple(models.result_of("int", {"a": a_})
                           for a_ in (7, 8, 9))
            require(models.deep_eq(got_s, want_s), "neighbour-crop-touched",
                    f"the neighbour crop reaps {got_s!r:.200}, expected "
                    f"{want_s!r:.200}")
        # ---- a second crop at the same location, same process, with a
        # tweaked function: it must be grown with the NEW function
        if case.get("second_round") and farmer_kind == "runner" and \
                case["mode"] == "combos":
            r2, spec2, _, _, _ = build_runner(x, desc, epoch=1)
            with under_test("second crop at the same location"):
                c2 = r2.Crop(name="c6", parent_dir=main, **bkw)
                c2.sow_combos(combos, verbosity=0, **skw)
                if case.get("reload_before_grow"):
                    c2 = x.Crop(name="c6", parent_dir=main)
                c2.grow_missing()
                got2 = c2.reap()
            labelled.check_dataset(
                got2, spec=spec2, fn_args=fn_args, coords=coords,
                requested=None, fn_kwargs_extra=extra, constants=consts,
                resources=desc["resources"], attrs=desc["attrs"],
                var_coords=var_coords, explicit_names=False,
                tag="second crop (tweaked function)")

    dim_const = any(h == "constant" for h in desc["dim_coords"].values())
    nt = dim_const or bool(desc["resources"]) or reloaded or \
        (to_df and bool(case.get("shuffle"))) or bool(pre) or \
        between is not None
    return {"nontrivial": nt,
            "classes": [f"farmer={farmer_kind}", f"mode={case['mode']}",
                        "reloaded" if reloaded else "no-reload",
                        "const-names-dim" if dim_const else "no-dim-const",
                        f"ret={desc['ret']}",
                        "pre-existing" if pre else "fresh-file",
                        f"shuffle={bool(case.get('shuffle'))}"]}


# ----------------------------------------------------------------- strategy

@st.composite
def strategy(draw):
    farmer = draw(st.sampled_from(["runner", "harvester", "runner_df",
                                   "sampler", "harvester", "runner"]))
    to_df = farmer in ("runner_df", "sampler")
    desc = draw(C03.runner_desc(to_df=to_df))
    if farmer == "harvester" and desc["ret"] == "dataarray":
        desc["ret"] = "dataset"
    reserved = set(desc["constants"]) | set(desc["resources"]) | \
        set(desc["attrs"]) | {"t", "w", "s"} | {n for n, _ in desc["vars"]}
    names = [n for n in gens.ARG_NAMES if n not in reserved]
    case = {"farmer": farmer, "desc": desc,
            "order": draw(st.lists(st.integers(0, 20), max_size=4)),
            "reload_before_grow": draw(st.booleans()),
            "reload_before_reap": draw(st.booleans()),
            "dname": draw(st.sampled_from(["data.h5", "data", "res.dmp"])),
            "decoy_sow": draw(st.sampled_from([False, False, True,
                                               "reload"])),
            "onlooker": draw(st.booleans()),
            "init_full": draw(st.sampled_from([False, True])),
            "grow_workers": draw(st.sampled_from([False, False, False,
                                                  True])),
            "sibling": draw(st.sampled_from([False, False, True])),
            "case_dicts": draw(st.booleans()),
            "runner_fn_args": draw(st.sampled_from([False, False, True])),
            "sow_consts": draw(st.sampled_from([False, False, True]))}
    if case["dname"].endswith(".dmp"):
        case["engine"] = "joblib"
    if farmer == "sampler":
        case["mode"] = "combos"
        case["args"] = draw(gens.grid(1, 3, 3, mixed=False, names=names))
        case["n"] = draw(st.integers(1, 8))
        case["np_seed"] = draw(st.integers(0, 2**31))
        case["ctor_shuffle"] = draw(st.sampled_from([None, None, True, 5]))
        N = case["n"]
    else:
        mode = draw(st.sampled_from(["combos", "combos", "cases"]))
        case["mode"] = mode
        if mode == "combos":
            case["args"] = draw(gens.grid(1, 3, 3, mixed=False, names=names))
            case["shuffle"] = draw(st.sampled_from([False, True, 11]))
            case["ctor_shuffle"] = draw(st.sampled_from([None, None, True,
                                                         5]))
            N = 1
            for _, v in case["args"]:
                N *= len(v)
        else:
            case["cases"] = draw(gens.case_set(1, 2, 5, names=names))
            case["ctor_shuffle"] = draw(st.sampled_from([None, None, True,
                                                         5]))
            N = len(case["cases"]["cases"])
            rest_ = [n for n in names if n not in case["cases"]["args"]]
            k_ = draw(st.sampled_from([0, 0, 1, 2]))
            subs_ = draw(st.lists(st.sampled_from(rest_), min_size=k_,
                                  max_size=k_, unique=True))
            case["subgrid"] = [[a, draw(gens.arg_values(1, 3, mixed=False))]
                               for a in subs_]
            case["sub_spelling"] = draw(st.sampled_from(["pairs", "dict"]))
            for _, v_ in case["subgrid"]:
                N *= len(v_)
    bt = draw(st.sampled_from(["default", "batchsize", "num_batches"]))
    if bt != "default":
        case["batch"] = [bt, draw(st.integers(1, N + 1))]
    if farmer == "harvester":
        case["overwrite"] = draw(st.sampled_from([None, True, False]))
        if draw(st.booleans()):
            case["pre"] = {"epoch": draw(st.sampled_from([0, 0, 1])),
                           "drop": draw(st.integers(0, 2)),
                           "by_farmer": draw(st.booleans())}
        case["between"] = draw(st.sampled_from([False, True]))
    case["second_round"] = draw(st.booleans())
    return case


PHASES = [
    Phase("farmers", run_case, strategy=strategy,
          examples={"quick": 1600, "thorough": 60000}),
]
