"""C16 - generated cluster scripts and the grow CLI grow exactly the intended
batches."""
import os
import re
import sys
import subprocess
import collections

from hypothesis import strategies as st

from .. import core, models, crops
from ..core import Phase, under_test, require

ID = "C16"
LEVEL = "exploration"
RULE = (
    "cases: scheduler in {sge, pbs, slurm} (any letter case) x mode in "
    "{array, single} x crop of 1-8 batches x state {nothing grown, a "
    "generated subset grown} x batch_ids in {None, explicit tuple/list/int "
    "of length 1..B in generated order} x options (time as int / float / "
    "'h:m:s' / hours+minutes+seconds, gigabytes or mem, num_workers with "
    "num_procs, extra header flags incl. None/True values, launcher, setup "
    "code, conda_env False) x crop parent_dir absolute / relative / the "
    "current directory x ids as python or numpy integers.  Layer 1 (every case): bash -n accepts the "
    "script; the here-document body, with the scheduler variable substituted, "
    "compiles as Python and is then RUN once per task index against stub "
    "grow/Crop objects: the union of the batch ids the tasks would grow must "
    "be exactly the intended ids, each once; documented header flags appear "
    "as documented; the array range parsed from the HEADER is 1-K with "
    "K = number of intended tasks (PBS with K=1: no array line; single mode: "
    "no array line).  Layer 2 (executed cases): the script is run with bash "
    "once per index of the header's range with a stub SGE_TASK_ID / "
    "PBS_ARRAY_INDEX / SLURM_ARRAY_TASK_ID and python resolved to the "
    "interpreter under test; stderr must show no Traceback/SyntaxError, "
    "stdout the start and finish markers, the result files created must be "
    "exactly the intended ids and every setting of those batches evaluated "
    "exactly once (call log written by the harness function) and every new "
    "result file holds its batch's results in the batch's order (with "
    "num_workers the function is slowest on a batch's first setting).  Layer 3: when "
    "that completes the crop it is ready and reap() equals the direct run.  "
    "The same oracle for the xyzpy-grow command line.  Non-trivial = a "
    "partially grown crop or explicit ids not in ascending order."
)
ASSUMPTIONS = [
    "no SGE/PBS/SLURM here: scripts are executed by bash with stub task "
    "variables; header directives are checked textually",
    "num_procs is given whenever num_workers is (implicit precondition of "
    "gen_cluster_script); the script's own exit status is not an oracle (its "
    "last command is an echo)",
]

VAR = {"sge": "SGE_TASK_ID", "pbs": "PBS_ARRAY_INDEX",
       "slurm": "SLURM_ARRAY_TASK_ID"}
ARRAY_RX = {"sge": r"^#\$ -t (\d+)-(\d+)$", "pbs": r"^#PBS -J (\d+)-(\d+)$",
            "slurm": r"^#SBATCH --array=(\d+)-(\d+)$"}


def xyz():
    return core.import_target()


def cname(case):
    return case.get("crop_name") or "c16"


def crop_parent(case, root):
    """-> (directory that holds the crop, parent_dir argument, cwd to use)"""
    style = case.get("parent_style", "abs")
    if style == "rel":
        return os.path.join(root, "runs", "sub"), os.path.join("runs", "sub")
    if style == "cwd":
        return root, None
    return root, root


def build(x, top, case, logfile):
    slow = (0.12, case["N"]) if case.get("slow") else None
    fn = crops.record("int", logfile, slow)
    N, B = case["N"], case["B"]
    root, parg = crop_parent(case, top)
    os.makedirs(root, exist_ok=True)
    # (the harness process sits in ``top`` while the crop is created and the
    # script generated, like a user in their project directory)
    crop = x.Crop(fn=fn, name=cname(case), parent_dir=parg, num_batches=B)
    crop.sow_combos({"a": list(range(N))}, verbosity=0)
    B = len(crops.batch_ids(root, cname(case)))
    pre = sorted({i % B + 1 for i in case["pre_grown"]})
    if len(pre) == B:
        pre = pre[:-1]
    if case.get("peek"):
        # the user looks at the freshly sown crop (nothing grown yet) before
        # the first batches are grown; the same object writes the script
        with core.quiet():
            str(crop), crop.num_results, crop.missing_results()
    for i in pre:
        crop.grow(i)
    if case.get("orphan_tmp"):
        # a grower was killed while saving one of the still missing batches:
        # its temporary file stays behind (it is not a result)
        miss_ = [i for i in range(1, B + 1) if i not in pre]
        if miss_:
            i_ = miss_[case["orphan_tmp"] % len(miss_)]
            with open(crops.result_path(root, cname(case), i_) +
                      ".0123456789abcdef0123456789abcdef.tmp", "wb") as f_:
                f_.write(b"\x80\x04half a pickle")
    if logfile and os.path.exists(logfile):
        os.remove(logfile)
    batch_vals = {i: [models.plain(kw["a"]) for kw in
                      crops.read_batch(root, cname(case), i)]
                  for i in range(1, B + 1)}
    return crop, fn, B, pre, batch_vals


def intended(case, B, pre):
    if case["batch_ids"] is not None:
        ids = []
        for i in case["batch_ids"]:
            i = i % B + 1
            if i not in ids:
                ids.append(i)
        return ids
    return [i for i in range(1, B + 1) if i not in pre]


def gen_script(x, crop, case, root, ids):
    opts = dict(case["opts"])
    sched = case["scheduler"]
    if case.get("upper"):
        sched = sched.upper()
    if sched.lower() == "sge":
        opts["output_directory"] = os.path.join(root, "sge-out")
    opts.setdefault("conda_env", False)
    bi = None
    if case["batch_ids"] is not None:
        import numpy as np
        sp = case.get("ids_spelling", "tuple")
        bi = ids[0] if (sp == "int" and len(ids) == 1) else \
            (list(ids) if sp == "list" else tuple(ids))
        if sp == "np_tuple":      # e.g. tuple(np.arange(...)[mask])
            bi = tuple(np.int64(i) for i in ids)
        elif sp == "np_array":
            bi = np.array(ids)
        elif sp == "np_int":
            bi = np.int64(ids[0]) if len(ids) == 1 else \
                [np.int32(i) for i in ids]
    with under_test("gen_cluster_script"):
        if case.get("via_partial"):
            meth = getattr(crop, f"gen_{sched.lower()}_script")
            return meth(batch_ids=bi, mode=case["mode"], **opts)
        return crop.gen_cluster_script(sched, bi, mode=case["mode"], **opts)


def static_checks(case, script, ids, root):
    sched = case["scheduler"]
    require(isinstance(script, str) and script.startswith("#!"),
            "not-a-script", f"{script!r:.200}")
    spath = os.path.join(root, "job.sh")
    with open(spath, "w") as f:
        f.write(script)
    p = subprocess.run(["bash", "-n", spath], capture_output=True, text=True)
    require(p.returncode == 0, "shell-syntax",
            f"bash -n rejects the script: {p.stderr[:400]}")
    m = re.search(r"<< EOM\n(.*?)\nEOM\n", script, re.S)
    require(m is not None, "no-embedded-program", script[-600:])
    body = m.group(1).replace("$" + VAR[sched], "1")
    try:
        compile(body, "<embedded>", "exec")
    except SyntaxError as e:
        core.violated("embedded-python-invalid",
                      f"{e}: line {e.lineno}: {e.text!r}\n{body[-400:]}")
    # wherever the job starts, the program must find the crop: the embedded
    # parent_dir, taken from the directory the script changes into (itself
    # taken from where the script was generated), is the crop's directory
    mcd = re.search(r"^cd (.*)$", script, re.M)
    mpd = re.search(r"parent_dir='([^']*)'", body)
    require(mcd is not None and mpd is not None, "no-directory-lines",
            script[-600:])
    want_dir = os.path.realpath(crop_parent(case, root)[0])
    cd_dir = os.path.realpath(os.path.join(root, mcd.group(1)))
    got_dir = os.path.realpath(os.path.join(cd_dir, mpd.group(1)))
    require(got_dir == want_dir, "crop-directory",
            f"the script changes into {mcd.group(1)!r} and opens the crop "
            f"with parent_dir={mpd.group(1)!r}, i.e. {got_dir}; the crop is "
            f"in {want_dir}")
    # documented header flags: None/True values are bare flags
    flag = {"sge": "#$ -l {}", "pbs": "#PBS -l {}", "slurm": "#SBATCH --{}"}
    for k_, v_ in case["opts"].items():
        if k_ in ("gpu", "requeue", "exclusive", "qos"):
            want_line = flag[sched].format(k_) + (
                "" if (v_ is None or v_ is True) else f"={v_}")
            require(want_line in script.splitlines(), "header-flag",
                    f"expected header line {want_line!r} for {k_}={v_!r}")
    # the array range in the header
    head = script.split("echo 'XYZPY script starting...'")[0]
    rng = [re.match(ARRAY_RX[sched], ln) for ln in head.splitlines()]
    rng = [r for r in rng if r]
    for s2 in ARRAY_RX:
        if s2 != sched:
            require(not any(re.match(ARRAY_RX[s2], ln)
                            for ln in head.splitlines()),
                    "foreign-array-directive", head)
    K = len(ids)
    if case["mode"] == "single":
        require(not rng, "array-line-in-single-mode", head)
        return spath, [None]
    if sched == "pbs" and K == 1:
        require(not rng, "pbs-array-of-one", head)
        return spath, [None]
    require(len(rng) == 1, "array-line-count",
            f"{len(rng)} array directives in\n{head}")
    lo, hi = int(rng[0].group(1)), int(rng[0].group(2))
    require((lo, hi) == (1, K), "array-range",
            f"header array range {lo}-{hi} for {K} intended tasks {ids}")
    return spath, list(range(lo, hi + 1))


def simulate(case, script, tasks, missing_now):
    """Run the embedded program once per task index against stub ``grow`` /
    ``Crop`` objects and return the batch ids each task would grow."""
    sched = case["scheduler"]
    body = re.search(r"<< EOM\n(.*?)\nEOM\n", script, re.S).group(1)
    body = body.replace("from xyzpy.gen.cropping import grow, Crop\n", "")
    grown = []
    for t in tasks:
        prog = body.replace("$" + VAR[sched], str(t if t is not None else 1))
        calls = []

        class StubCrop:
            def __init__(self, name=None, parent_dir=None):
                self.name, self.parent_dir = name, parent_dir

            def __repr__(self):
                return "<stub crop>"

            def missing_results(self):
                return tuple(missing_now)

            def grow(self, batch_ids, **kw):
                calls.extend([batch_ids] if isinstance(batch_ids, int)
                             else list(batch_ids))

        def stub_grow(i, crop=None, **kw):
            calls.append(i)
        ns = {"__name__": "__main__", "grow": stub_grow, "Crop": StubCrop}
        try:
            with core.quiet():
                exec(compile(prog, "<embedded>", "exec"), ns)
        except Exception as e:
            core.violated("embedded-program-fails",
                          f"task {t}: {type(e).__name__}: {e}\n{prog[-500:]}")
        grown.append(calls)
    return grown


def check_simulation(case, script, tasks, ids, missing_now):
    grown = simulate(case, script, tasks, missing_now)
    flat = [i for calls in grown for i in calls]
    require(sorted(flat) == sorted(ids), "tasks-grow-wrong-batches",
            f"intended batches {ids}; the tasks {tasks} would grow {grown}")
    if case["mode"] == "array":
        require(all(len(c) == 1 for c in grown), "task-grows-several",
                f"array tasks grow {grown}")


def run_static(case):
    x = xyz()
    cwd0 = os.getcwd()
    with core.scratch("xv-c16-") as root:
        os.chdir(root)
        try:
            crop, fn, B, pre, _ = build(x, root, case, None)
            ids = intended(case, B, pre)
            script = gen_script(x, crop, case, root, ids)
        finally:
            os.chdir(cwd0)
        spath, tasks = static_checks(case, script, ids, root)
        check_simulation(case, script, tasks, ids,
                         [i for i in range(1, B + 1) if i not in pre])
    return _info(case, ids, pre, executed=False)


def _info(case, ids, pre, executed):
    nt = bool(pre) or ids != sorted(ids)
    return {"nontrivial": nt,
            "classes": [f"scheduler={case['scheduler']}",
                        f"mode={case['mode']}",
                        "partly-grown" if pre else "nothing-grown",
                        "explicit-ids" if case["batch_ids"] is not None
                        else "missing-ids",
                        "executed" if executed else "static",
                        "ids-unordered" if ids != sorted(ids) else
                        "ids-ascending"]}


def child_env(root):
    bindir = os.path.join(root, "bin")
    os.makedirs(bindir, exist_ok=True)
    link = os.path.join(bindir, "python")
    if not os.path.exists(link):
        # (a symlink would lose the virtual environment's site-packages)
        with open(link, "w") as f:
            f.write(f'#!/bin/sh\nexec {sys.executable} "$@"\n')
        os.chmod(link, 0o755)
    env = dict(os.environ)
    env["PATH"] = bindir + os.pathsep + env.get("PATH", "")
    env["PYTHONPATH"] = core.VERIF + os.pathsep + core.REPO
    env["HOME"] = root
    for v in VAR.values():
        env.pop(v, None)
    return env


def run_executed(case):
    x = xyz()
    cwd0 = os.getcwd()
    with core.scratch("xv-c16x-") as root:
        os.chdir(root)
        try:
            return _run_executed(x, case, root)
        finally:
            os.chdir(cwd0)


def _run_executed(x, case, root):
    if True:
        logfile = os.path.join(root, "calls.log")
        crop, fn, B, pre, batch_vals = build(x, root, case, logfile)
        ids = intended(case, B, pre)
        top, root = root, crop_parent(case, root)[0]
        if case.get("cli"):
            tasks = [None]
            cmd = [os.path.join(os.path.dirname(sys.executable),
                                "xyzpy-grow"), cname(case), "--parent-dir",
                   root]
            if case.get("parent_style") == "rel":
                cmd[-1] = crop_parent(case, top)[1]
            if case["opts"].get("num_workers"):
                cmd += ["--num-workers", str(case["opts"]["num_workers"])]
            ids = [i for i in range(1, B + 1) if i not in pre]
            runs = [(cmd, child_env(top))]
        else:
            script = gen_script(x, crop, case, top, ids)
            spath, tasks = static_checks(case, script, ids, top)
            if case.get("late_grow") and case["mode"] == "single" and \
                    case["batch_ids"] is None and len(ids) >= 2:
                # between writing the script and the job starting somebody
                # grows one of the batches: a single-mode job without explicit
                # ids works out what is missing when it RUNS (so that it can
                # be restarted)
                with core.quiet():
                    crop.grow(ids[0])
                if os.path.exists(logfile):
                    os.remove(logfile)
                ids = ids[1:]
            runs = []
            for t in tasks:
                env = child_env(top)
                if t is not None:
                    env[VAR[case["scheduler"]]] = str(t)
                runs.append((["bash", spath], env))
        before = set(crops.result_ids(root, cname(case)))
        for cmd, env in runs:
            p = subprocess.run(cmd, env=env, capture_output=True, text=True,
                               cwd=top, timeout=600)
            bad = [ln for ln in p.stderr.splitlines()
                   if "Traceback" in ln or "Error" in ln]
            require(not bad, "task-failed",
                    f"{' '.join(cmd[:2])} "
                    f"({VAR.get(case['scheduler'])}="
                    f"{env.get(VAR.get(case['scheduler'], ''), '-')}): "
                    f"{p.stderr[-900:]}")
            if not case.get("cli"):
                require("XYZPY script starting" in p.stdout and
                        "XYZPY script finished" in p.stdout, "markers",
                        p.stdout[-400:])
        after = set(crops.result_ids(root, cname(case)))
        require(after - before == set(ids) - before and
                set(ids) <= after, "grew-wrong-batches",
                f"intended {ids} (already grown {sorted(before)}): new result "
                f"files {sorted(after - before)}")
        # each new result file holds its batch's results, in the batch's order
        import pickle
        for i in sorted(after - before):
            with open(crops.result_path(root, cname(case), i), "rb") as f:
                res = pickle.load(f)
            want_res = tuple(models.result_of("int", {"a": a})
                             for a in batch_vals[i])
            require(models.deep_eq(tuple(res), want_res), "result-content",
                    f"result {i} holds {res!r:.200}, its batch's settings "
                    f"{batch_vals[i]} give {want_res!r:.200}")
        calls = collections.Counter(models.read_log(logfile))
        want = collections.Counter(
            models.canon_kw({"a": a}) for i in ids for a in batch_vals[i])
        require(calls == want, "evaluated-other-settings",
                f"evaluations {dict(calls)} vs the settings of batches {ids}: "
                f"{dict(want)}")
        if after == set(range(1, B + 1)):
            with under_test("reap after scripts"):
                c2 = x.Crop(name=cname(case), parent_dir=root)
                require(c2.is_ready_to_reap(), "not-ready",
                        "all results present but crop not ready")
                got = c2.reap()
                direct = x.combo_runner(crops.record("int", None),
                                        {"a": list(range(case["N"]))},
                                        verbosity=0)
            require(models.deep_eq(got, direct), "reap-differs",
                    f"{got!r:.200} vs {direct!r:.200}")
    return _info(case, ids, pre, executed=True)


# ---------------------------------------------------------------- strategies

@st.composite
def options(draw, allow_workers=True):
    o = {}
    t = draw(st.sampled_from(["none", "int", "float", "str", "hms", "hm"]))
    if t == "int":
        o["time"] = draw(st.integers(1, 48))
    elif t == "float":
        o["time"] = draw(st.sampled_from([0.5, 1.5, 12.0]))
    elif t == "str":
        o["time"] = draw(st.sampled_from(["1:30:00", "0:05:30", "12:00:00"]))
    elif t == "hms":
        o["hours"], o["minutes"], o["seconds"] = 1, 30, 15
    elif t == "hm":
        o["minutes"] = draw(st.integers(1, 59))
    m = draw(st.sampled_from(["none", "gigabytes", "mem"]))
    if m == "gigabytes":
        o["gigabytes"] = draw(st.integers(1, 64))
    elif m == "mem":
        o["mem"] = draw(st.integers(1, 64))
    if allow_workers and draw(st.sampled_from([False, False, True])):
        o["num_workers"] = 2
        o["num_procs"] = draw(st.sampled_from([2, 4]))
    elif draw(st.booleans()):
        o["num_procs"] = draw(st.integers(1, 8))
    extra = draw(st.sampled_from([{}, {}, {"gpu": 1}, {"requeue": None},
                                  {"exclusive": True, "qos": "high"}]))
    o.update(extra)
    if draw(st.booleans()):
        o["launcher"] = draw(st.sampled_from(["python", "python -u"]))
    if draw(st.booleans()):
        o["setup"] = draw(st.sampled_from(
            ["import math", "import os; X = os.getpid()",
             "# a comment"]))
    if draw(st.sampled_from([False, False, True])):
        o["debugging"] = True
    return o


@st.composite
def strategy(draw, executed=False):
    B = draw(st.integers(1, 8 if not executed else 4))
    N = draw(st.integers(B, B + 4))
    case = {"scheduler": draw(st.sampled_from(["sge", "pbs", "slurm"])),
            "mode": draw(st.sampled_from(["array", "array", "single"])),
            "B": B, "N": N,
            "pre_grown": draw(st.lists(st.integers(0, 20), max_size=3)),
            "upper": draw(st.sampled_from([False, False, True])),
            "via_partial": draw(st.booleans()),
            "opts": draw(options(allow_workers=not executed or True))}
    if draw(st.booleans()):
        case["batch_ids"] = draw(st.lists(st.integers(0, 20), min_size=1,
                                          max_size=B))
        case["ids_spelling"] = draw(st.sampled_from(
            ["tuple", "list", "int", "np_tuple", "np_array", "np_int"]))
    else:
        case["batch_ids"] = None
    case["parent_style"] = draw(st.sampled_from(["abs", "abs", "rel", "cwd"]))
    case["orphan_tmp"] = draw(st.sampled_from([0, 0, 1, 2]))
    case["peek"] = draw(st.booleans())
    if draw(st.sampled_from([False, False, True])):
        case["crop_name"] = "simulate_ground_state_energy_v2"
    if executed:
        if "num_workers" in case["opts"] and draw(st.booleans()):
            case["opts"].pop("num_workers")
        case["cli"] = draw(st.sampled_from([False, False, False, True]))
        case["late_grow"] = draw(st.booleans())
        if case["cli"]:
            case["crop_name"] = draw(st.sampled_from(
                ["c16", "zeta", "xy-sweep", "yield_curve", ".hidden"]))
        if draw(st.sampled_from([False, True])) and not case["cli"]:
            # workers inside one task: batches of several settings whose
            # first ones finish last
            case["opts"]["num_workers"] = 2
            case["opts"]["num_procs"] = 2
            case["mode"] = "array"
            case["N"] = 2 * B + draw(st.integers(0, 2))
            case["slow"] = True
    return case


def executed_strategy():
    return strategy(executed=True)


PHASES = [
    Phase("static", run_static, strategy=strategy,
          examples={"quick": 800, "thorough": 20000}),
    Phase("executed", run_executed, strategy=executed_strategy,
          examples={"quick": 64, "thorough": 1500}, shrink=False),
]
