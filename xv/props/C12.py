"""C12 - a crop is deleted only after its data is safely delivered."""
import os
import shutil
import pickle
import itertools
import contextlib

import numpy as np
from hypothesis import strategies as st

from .. import core, models, crops, labelled
from ..core import Phase, under_test, require

ID = "C12"
LEVEL = "fault_enumeration"
RULE = (
    "configurations: clean_up in {None, True, False} x allow_incomplete x "
    "wait (only on complete crops) x farmer in {none, Runner, Harvester, "
    "Harvester without a data name (memory only), Sampler} x injected failure stage in {none, incomplete crop, unreadable "
    "result (truncated / garbage file), a readable result one entry short, "
    "over-long result with a falsy surplus "
    "entry, wrong output description (var_names "
    "count, missing var_dims), harvester merge conflict with existing data, "
    "save error (data directory missing, injected OSError in the save call)} "
    "on generated small crops (2-8 settings, 1-4 batches, shuffle), followed "
    "by the corrected retry.  The full cross product of the valid "
    "combinations is enumerated (x generated crop shapes).  Oracle: a reap "
    "that raised leaves the crop tree byte-identical and the retry delivers "
    "exactly the direct-run data (by label / row-wise recomputation; the "
    "Harvester / Sampler file holds it); a reap that succeeded removed the "
    "directory iff clean_up resolved to True (None => not allow_incomplete), "
    "and for Harvester / Sampler the data file already held the new data at "
    "the moment the directory was removed (hook on rmtree).  Non-trivial = a "
    "failure stage other than 'none', followed by the retry."
)
ASSUMPTIONS = [
    "the waiting-reap phase uses the real clock (a grower finishes 1.6 s "
    "after the reap started); a slower machine only makes it slower",
    "the process runs as root, so read-only directories cannot be used as a "
    "fault; the save failure is a missing directory or an injected OSError",
    "wait=True is only combined with complete crops (blocking is liveness)",
]

FARMERS = ["none", "runner", "harvester", "harvester_mem", "sampler"]
FAILURES = {
    "none": FARMERS,
    "incomplete": FARMERS,
    "unreadable": FARMERS,
    "overlong": FARMERS,
    "short": FARMERS,
    "symlinked": ["none", "runner"],
    "wrong_names": ["runner", "harvester", "harvester_mem"],
    "missing_dims": ["runner", "harvester", "harvester_mem"],
    "conflict": ["harvester", "harvester_mem"],
    "save_dir_missing": ["harvester", "sampler"],
    "save_injected": ["harvester", "sampler"],
}


def xyz():
    return core.import_target()


@contextlib.contextmanager
def rmtree_hook(callback):
    real = shutil.rmtree

    def hooked(path, *a, **k):
        callback(path)
        return real(path, *a, **k)
    shutil.rmtree = hooked
    try:
        yield
    finally:
        shutil.rmtree = real


def run_case(case):
    x = xyz()
    import xarray as xr
    import xyzpy.gen.farming as farming
    farmer_kind, failure = case["farmer"], case["failure"]
    # a harvester without a data name keeps its dataset in memory only
    mem_only = farmer_kind == "harvester_mem"
    if mem_only:
        farmer_kind = "harvester"
    clean_up, allow_inc, wait = case["clean_up"], case["allow_incomplete"], \
        case["wait"]
    A = list(range(case["na"]))
    Bv = ["p", "q"][:case["nb"]]
    # the conflicting data already stored: the first label, or (swept high to
    # low / in no particular order) several of them and one from outside
    pre_a = A[:1]
    if case.get("pre_order") == "desc":
        pre_a = [A[-1] + 5] + A[::-1]
    elif case.get("pre_order") == "mixed":
        pre_a = [A[-1], A[-1] + 7, A[0]] if len(A) > 1 else [A[0] + 3, A[0]]
    internal = failure == "missing_dims"
    spec = {"vars": [["out", ["t"] if internal else []], ["E", []]],
            "sizes": {"t": 2}, "ret": "tuple", "log": None}
    if case.get("tiny"):
        # data of small magnitude: conflicting values differ by 1e-12
        spec["scale"] = 1e-12
    names = ("out", "E")
    var_dims = {"out": "t"} if internal else None
    var_coords = {"t": [10, 20]} if internal else None
    with core.scratch("xv-c12-") as root:
        ddir = os.path.join(root, "store" if failure == "save_dir_missing"
                            else "")
        data_name = os.path.join(ddir, "data.h5" if farmer_kind ==
                                 "harvester" else "samples.pkl")
        fn = labelled.make_fn(spec)
        good = dict(var_dims=var_dims, var_coords=var_coords)
        bad_names = names + ("extra",) if failure == "wrong_names" else names
        bad = dict(good)
        if failure == "missing_dims":
            bad = dict(var_dims=None, var_coords=None)
        farmer = runner = None
        if farmer_kind != "none":
            runner = x.Runner(fn, bad_names, **bad)
            farmer = runner
            if mem_only:
                pre_ds = None
                if failure == "conflict":
                    r_old = x.Runner(labelled.make_fn(dict(spec, epoch=1)),
                                     names, **good)
                    pre_ds = r_old.run_combos({"a": pre_a, "b": Bv},
                                              verbosity=0)
                farmer = x.Harvester(runner, data_name=None, full_ds=pre_ds)
            elif farmer_kind == "harvester":
                farmer = x.Harvester(runner, data_name=data_name)
            elif farmer_kind == "sampler":
                farmer = x.Sampler(runner, data_name=data_name,
                                   default_combos={"a": A, "b": Bv})
        # pre-existing conflicting data
        if failure == "conflict" and not mem_only:
            if case.get("warm"):
                # the reaping harvester has been used before (it has written
                # and read its file); the conflicting data is stored
                # afterwards, by somebody else
                farmer.harvest_combos({"a": [A[-1] + 20], "b": Bv},
                                      verbosity=0)
            spec_old = dict(spec, epoch=1)
            r_old = x.Runner(labelled.make_fn(spec_old), names, **good)
            x.Harvester(r_old, data_name=data_name).harvest_combos(
                {"a": pre_a, "b": Bv}, verbosity=0)
        combos = {"a": A, "b": Bv}
        settings = list(itertools.product(A, Bv))
        bkw = {case["batch"][0]: case["batch"][1]} if case.get("batch") else {}
        with under_test("sow+grow"):
            if farmer is None:
                crop = x.Crop(fn=fn, name="c12", parent_dir=root, **bkw)
            else:
                crop = farmer.Crop(name="c12", parent_dir=root, **bkw)
            if farmer_kind == "sampler":
                np.random.seed(case["np_seed"])
                crop.sow_samples(case["n"], verbosity=0)
            else:
                crop.sow_combos(combos, shuffle=case.get("shuffle", False),
                                verbosity=0)
            B = len(crops.batch_ids(root, "c12"))
            victim = case["victim"] % B + 1
            for i in range(1, B + 1):
                if failure == "incomplete" and i == victim:
                    continue
                crop.grow(i)
        where = {}
        for i in range(1, B + 1):
            for kw in crops.read_batch(root, "c12", i):
                where[models.canon_kw({k: kw[k] for k in ("a", "b")})] = i
        if failure == "unreadable":
            p = crops.result_path(root, "c12", victim)
            data = open(p, "rb").read()
            with open(p, "wb") as f:
                f.write(data[:len(data) // 2] if case["victim"] % 2
                        else b"garbage" + data[7:])
        if failure == "symlinked":
            # the crop folder lives elsewhere (scratch storage) and is linked
            # into the project directory: it cannot be removed with rmtree,
            # so a reap that wants to clean up has to fail - without having
            # removed anything
            real_ = os.path.join(root, "scratch-store")
            shutil.move(crops.crop_dir(root, "c12"), real_)
            os.symlink(real_, crops.crop_dir(root, "c12"))
        if failure == "short":
            # a readable result holding fewer entries than its batch
            p = crops.result_path(root, "c12", victim)
            with open(p, "rb") as f:
                res_ = pickle.load(f)
            with open(p, "wb") as f:
                pickle.dump(tuple(res_)[:-1], f)
        if failure == "overlong":
            # a result holding more entries than its batch (the situation
            # check_bad exists for); the surplus entry is falsy
            p = crops.result_path(root, "c12", victim)
            with open(p, "rb") as f:
                res_ = pickle.load(f)
            surplus = res_[-1]
            try:
                surplus = type(surplus)(0 * w_ for w_ in surplus) \
                    if isinstance(surplus, tuple) else 0 * surplus
            except Exception:
                surplus = None
            with open(p, "wb") as f:
                pickle.dump(tuple(res_) + (surplus if case["victim"] % 2
                                           else None,), f)
        cdir = crops.crop_dir(root, "c12")
        digest0 = crops.tree_digest(cdir)
        partial_ok = failure == "incomplete" and allow_inc and B > 1
        expect_fail = failure not in ("none",) and not partial_ok
        if failure == "incomplete" and allow_inc and B == 1:
            expect_fail = True      # nothing finished: no placeholder known
        if failure == "symlinked":
            # only a reap that is to clean up gets into trouble
            expect_fail = (not allow_inc) if clean_up is None else clean_up

        # ---------------------------------------------------- first reap
        events = []
        hook_requested = [None]
        if failure == "incomplete" and allow_inc and B > 1 and \
                farmer_kind == "harvester":
            hook_requested[0] = {
                tuple(models.plain(v) for v in st_) for st_ in settings
                if where[models.canon_kw({"a": st_[0], "b": st_[1]})]
                != victim}

        def on_rmtree(path):
            ap, cd_ = os.path.abspath(path), os.path.abspath(cdir)
            if ap != cd_ and not ap.startswith(cd_ + os.sep):
                return
            if "rmtree" in events:
                return          # (the deletion may come in several calls)
            events.append("rmtree")
            if farmer_kind == "harvester":
                ok = mem_only or os.path.exists(data_name)
                if ok:
                    # the file (the in-memory dataset of a harvester without
                    # a data name) must already hold the NEW data, by label
                    try:
                        at_rm = farmer._full_ds if mem_only else \
                            x.load_ds(data_name)
                        if failure == "conflict":
                            at_rm = at_rm.sel(a=A)
                        labelled.check_dataset(
                            at_rm, spec=spec,
                            fn_args=["a", "b"], coords={"a": A, "b": Bv},
                            requested=hook_requested[0], fn_kwargs_extra={},
                            constants={}, resources={}, attrs={},
                            var_coords=var_coords, explicit_names=False,
                            tag="file at rmtree")
                    except core.PropertyViolation:
                        ok = False
                events.append("data-present" if ok else "data-absent")
            elif farmer_kind == "sampler":
                ok = os.path.exists(data_name) and \
                    len(x.load_df(data_name)) >= case["n"]
                events.append("data-present" if ok else "data-absent")

        opts = dict(clean_up=clean_up, allow_incomplete=allow_inc, wait=wait)
        if failure == "conflict":
            opts["overwrite"] = None
        injected = {"n": 0}
        real_save_ds, real_save_df = farming.save_ds, farming.save_df

        def failing_save(*a, **k):
            injected["n"] += 1
            raise OSError("injected save failure")
        if failure == "save_injected":
            farming.save_ds = farming.save_df = failing_save
        raised = None
        try:
            with rmtree_hook(on_rmtree):
                try:
                    with under_test("reap", expect=(Exception,)):
                        got = crop.reap(**opts)
                except core.PropertyViolation:
                    raise
                except Exception as e:
                    raised = e
        finally:
            farming.save_ds, farming.save_df = real_save_ds, real_save_df

        resolved = (not allow_inc) if clean_up is None else clean_up
        if expect_fail:
            require(raised is not None, "failure-not-reported",
                    f"reap returned although stage '{failure}' was broken")
            require(os.path.isdir(cdir), "crop-deleted-by-failed-reap",
                    f"reap raised {raised!r:.200} and the crop directory is "
                    f"gone (events {events})")
            require(crops.tree_digest(cdir) == digest0,
                    "failed-reap-changed-crop",
                    f"reap raised {raised!r:.200}; crop files changed")
            # ------------------------------------------- correct and retry
            with under_test("correct the cause"):
                if failure == "incomplete":
                    crop.grow_missing()
                elif failure in ("unreadable", "overlong", "short"):
                    crop.check_bad()
                    crop.grow_missing()
                elif failure in ("wrong_names", "missing_dims"):
                    r_ = crop.farmer if farmer_kind == "runner" \
                        else crop.farmer.runner
                    r_.var_names = names
                    r_.var_dims = var_dims
                    r_.var_coords = var_coords
                elif failure == "symlinked":
                    clean_up = False       # (tidy up by hand later)
                    opts["clean_up"] = False
                elif failure == "conflict":
                    opts["overwrite"] = True
                elif failure == "save_dir_missing":
                    os.makedirs(ddir)
            events.clear()
            hook_requested[0] = None
            opts2 = dict(opts, allow_incomplete=False, clean_up=clean_up)
            with rmtree_hook(on_rmtree):
                with under_test("retried reap"):
                    got = crop.reap(**opts2)
            resolved = True if clean_up is None else clean_up
            finished = None
        else:
            require(raised is None, "spurious-failure",
                    f"reap raised {raised!r:.300} with failure stage "
                    f"'{failure}' (clean_up={clean_up}, allow_incomplete="
                    f"{allow_inc}, wait={wait})")
            finished = None
            if partial_ok:
                finished = {i for i in range(1, B + 1) if i != victim}

        # ---------------------------------------------------- delivered data
        def requested():
            if finished is None:
                return None
            return {tuple(models.plain(v) for v in s) for s in settings
                    if where[models.canon_kw({"a": s[0], "b": s[1]})]
                    in finished}

        if farmer_kind == "none":
            want = models.nested([A, Bv], lambda loc: labelled.compute(
                spec, {"a": loc[0], "b": loc[1]}))
            if finished is None:
                require(models.deep_eq(got, want), "delivered-data-wrong",
                        lambda: f"{got!r:.300} vs direct {want!r:.300}")
        elif farmer_kind in ("runner", "harvester"):
            labelled.check_dataset(
                got, spec=spec, fn_args=["a", "b"],
                coords={"a": A, "b": Bv}, requested=requested(),
                fn_kwargs_extra={}, constants={}, resources={}, attrs={},
                var_coords=var_coords, explicit_names=True, tag="reaped")
            if farmer_kind == "harvester":
                with under_test("load harvester file"):
                    on_disk = farmer.full_ds if mem_only else \
                        x.load_ds(data_name)
                    if failure == "conflict":
                        # (labels stored before and not swept by the crop
                        # stay, of course; the crop's own are looked at)
                        on_disk = on_disk.sel(a=A)
                labelled.check_dataset(
                    on_disk, spec=spec, fn_args=["a", "b"],
                    coords={"a": A, "b": Bv}, requested=requested(),
                    fn_kwargs_extra={}, constants={}, resources={}, attrs={},
                    var_coords=var_coords, explicit_names=False,
                    tag="harvester file")
        else:
            labelled.check_dataframe(
                got, spec=spec, fn_args=["a", "b"], settings=None,
                fn_kwargs_extra={}, constants={}, resources={}, attrs={},
                n_rows=case["n"]) if finished is None else None
            if finished is None:
                with under_test("load sampler file"):
                    on_disk = x.load_df(data_name)
                require(len(on_disk) == case["n"], "sampler-file-rows",
                        f"{len(on_disk)} rows on disk for n={case['n']}")

        # ---------------------------------------------------- clean-up rule
        gone = not os.path.exists(cdir)
        require(gone == bool(resolved), "clean-up-rule",
                f"clean_up={clean_up}, allow_incomplete="
                f"{opts2['allow_incomplete'] if expect_fail else allow_inc}: "
                f"directory {'removed' if gone else 'kept'}, documented "
                f"{'removed' if resolved else 'kept'}")
        if gone and farmer_kind in ("harvester", "sampler"):
            require("data-present" in events, "deleted-before-delivery",
                    f"the crop directory was removed while the "
                    f"{farmer_kind}'s file did not hold the data yet "
                    f"(events {events})")
        if not gone and failure == "none" and farmer_kind == "harvester" \
                and not mem_only and case.get("redo"):
            # the crop was kept; the user throws the stored dataset away and
            # reaps the crop once more: same rule, the crop may only go after
            # the file holds the data again
            with under_test("delete_ds"):
                farmer.delete_ds()
            events.clear()
            with rmtree_hook(on_rmtree):
                with under_test("second reap"):
                    crop.reap()
            require(not os.path.exists(cdir), "clean-up-rule",
                    "second reap (defaults) kept the crop")
            require("data-present" in events, "deleted-before-delivery",
                    f"second reap after delete_ds(): the crop directory was "
                    f"removed while the harvester's file did not hold the "
                    f"data (events {events})")
        if not gone and partial_ok:
            with under_test("finish after partial reap"):
                crop.grow_missing()
                full = crop.reap(overwrite=True) if farmer_kind == \
                    "harvester" else crop.reap()
            if farmer_kind == "none":
                require(models.deep_eq(full, want), "later-full-reap-wrong",
                        "full reap after partial differs from direct run")
    return {"nontrivial": failure != "none",
            "classes": [f"farmer={case['farmer']}", f"failure={failure}",
                        f"clean_up={clean_up}",
                        f"allow_incomplete={allow_inc}", f"wait={wait}",
                        "retried" if expect_fail else "first-reap-ok"]}


def run_slow(case):
    """A waiting reap (real clock): the last batch is finished by somebody
    else a good second after the reap started.  Whatever else the reap is told
    to tolerate, waiting means waiting: the result is complete and exact, and
    the crop is only removed after that."""
    import time
    import threading
    x = xyz()
    A = [1, 2, 3, 4]
    with core.scratch("xv-c12w-") as root:
        fn = crops.record("int", None)
        if case["farmer"] == "runner":
            spec = {"vars": [["out", []], ["E", []]], "sizes": {},
                    "ret": "tuple", "log": None}
            runner = x.Runner(labelled.make_fn(spec), ("out", "E"))
            crop = runner.Crop(name="c12w", parent_dir=root, batchsize=2)
        else:
            crop = x.Crop(fn=fn, name="c12w", parent_dir=root, batchsize=2)
        with under_test("sow, grow the first batch"):
            crop.sow_combos({"a": A}, verbosity=0)
            crop.grow(1)
        errs = []

        def late():
            time.sleep(case["delay"])
            try:
                x.grow(2, crop=x.Crop(name="c12w", parent_dir=root),
                       verbosity=0)
            except BaseException as e:      # reported below
                errs.append(e)
        th = threading.Thread(target=late)
        th.start()
        try:
            with under_test("reap(wait=True, ...)"):
                got = crop.reap(wait=True, **case["opts"])
        finally:
            th.join()
        require(not errs, "late-grower-failed",
                f"the grower that finished the last batch raised {errs!r:.300}"
                f" (the crop was removed under it)")
        if case["farmer"] == "runner":
            labelled.check_dataset(
                got, spec=spec, fn_args=["a"], coords={"a": A},
                requested=None, fn_kwargs_extra={}, constants={},
                resources={}, attrs={}, var_coords=None, explicit_names=True,
                tag="waiting reap")
        else:
            want = tuple(models.result_of("int", {"a": a}) for a in A)
            require(models.deep_eq(got, want), "delivered-data-wrong",
                    f"waiting reap returned {got!r:.200}, expected "
                    f"{want!r:.200}")
    return {"nontrivial": True,
            "classes": ["waiting-reap", f"farmer={case['farmer']}"]}


def slow_cases(tier, seed):
    for farmer in ("none", "runner"):
        for opts in ({}, {"allow_incomplete": True},
                     {"allow_incomplete": True, "clean_up": True}):
            yield {"farmer": farmer, "opts": opts, "delay": 1.6}


def enumerate_cases(tier, seed):
    import random
    rng = random.Random(seed)
    reps = 5 if tier == "quick" else 100
    for failure, farmers in FAILURES.items():
        for farmer in farmers:
            for clean_up in (None, True, False):
                for allow_inc in (False, True):
                    for wait in (False, True):
                        if wait and failure == "incomplete":
                            continue
                        for _ in range(reps):
                            na, nb = rng.randint(1, 4), rng.randint(1, 2)
                            N = na * nb
                            case = {"farmer": farmer, "failure": failure,
                                    "clean_up": clean_up,
                                    "allow_incomplete": allow_inc,
                                    "wait": wait, "na": na, "nb": nb,
                                    "victim": rng.randint(0, 7),
                                    "shuffle": rng.choice([False, True]),
                                    "n": rng.randint(2, 6),
                                    "np_seed": rng.randint(0, 2**31),
                                    "pre_order": rng.choice(
                                        [None, "desc", "mixed"]),
                                    "tiny": rng.random() < 0.4,
                                    "redo": rng.random() < 0.6,
                                    "warm": rng.random() < 0.5}
                            bt = rng.choice(["default", "batchsize",
                                             "num_batches"])
                            tot = case["n"] if farmer == "sampler" else N
                            if bt != "default":
                                case["batch"] = [bt, rng.randint(
                                    1, max(1, min(4, tot)))]
                            yield case


PHASES = [
    Phase("cross-product", run_case, enumerate=enumerate_cases,
          exhaustive={"quick": True, "thorough": True}),
    Phase("waiting-reap", run_slow, enumerate=slow_cases,
          distinct_by_construction=True,
          exhaustive={"quick": True, "thorough": True}),
]
