"""The harness' labelled recording function and the Dataset/DataFrame oracles
shared by C03, C06 (and used by C05/C12/C15 for their runners)."""
import os
import math
import functools
import itertools

import numpy as np

from . import core, models
from .core import require

INTERNAL_DIMS = {"t": [10, 20, 30], "time": [10, 20, 30], "w": [0.5, 1.5], "s": ["p", "q", "r"]}


def var_value(kw, j, shape):
    """Value of output variable j for kwargs kw (array of ``shape``)."""
    base = float(models.kw_number(kw, salt=j) % (2 ** 20))
    if not shape:
        return base
    idx = np.indices(shape)
    off = sum(idx[d] * 10.0 ** -(d + 1) for d in range(len(shape)))
    return base + off


def labelled_fn(_xv=None, **kw):
    """spec = {"vars": [[name, [dims...]], ...], "sizes": {dim: n},
    "ret": tuple|single|dataset|dataarray|dict, "log": path|None}"""
    spec = _xv
    logfile = spec.get("log")
    if logfile is None:
        models.LOG.append(dict(kw))
    else:
        fd = os.open(logfile, os.O_WRONLY | os.O_APPEND | os.O_CREAT, 0o644)
        try:
            os.write(fd, (models.canon_kw(kw) + "\n").encode())
        finally:
            os.close(fd)
    return compute(spec, kw)


def text_value(kw):
    return "g%d" % (models.kw_number(kw, salt=7) % 1000)


def undefined_at(spec, kw):
    """spec['nan_mod'] = k: the function is undefined (all outputs NaN) on
    about one in k settings - a legitimate result, not a missing one."""
    k = spec.get("nan_mod")
    return bool(k) and models.kw_number(kw, salt=99) % k == 0


def dtype_variant(spec, kw, j, val):
    """spec['mixed_dtype']: a scalar output is a numpy float32 at about half
    of the settings (the stored integers are exact there) and a float64 that
    needs its 53 bits at the others."""
    if not spec.get("mixed_dtype") or spec.get("str_var") == j:
        return val
    if models.kw_number(kw, salt=300 + j) % 2 == 0:
        return np.float32(val)
    return np.float64(val) + 2.0 ** -20


def compute(spec, kw):
    import xarray as xr
    kw = {k: v for k, v in kw.items()}
    outs = []
    for j, (name, dims) in enumerate(spec["vars"]):
        shape = tuple(spec["sizes"][d] for d in dims)
        val = (var_value(kw, j, shape) + spec.get("epoch", 0)) * \
            spec.get("scale", 1)
        if not shape:
            val = dtype_variant(spec, kw, j, val)
        if undefined_at(spec, kw):
            val = val * float("nan")
        if spec.get("str_var") == j and not shape:
            val = "txt%d" % int(val)          # a string-valued scalar output
        outs.append(val)
    ret = spec["ret"]
    if ret == "single":
        return outs[0]
    if ret == "tuple":
        return tuple(outs)
    if ret == "list":
        return list(outs)
    coords = {d: INTERNAL_DIMS[d][:n] for d, n in spec["sizes"].items()
              if any(d in dims for _, dims in spec["vars"])}
    if ret == "dataset":
        if spec.get("aux_coords"):
            coords = dict(coords)
            coords["units"] = "m"                      # scalar coordinate
            for d in list(coords):
                if d in spec["sizes"]:
                    coords[d + "_label"] = ((d,), ["lo", "hi", "top", "max"][
                        :spec["sizes"][d]])            # auxiliary coordinate
        dv = {name: (tuple(dims), o) for (name, dims), o in
              zip(spec["vars"], outs)}
        if spec.get("str_vars"):
            # text-valued variables next to the numbers
            dv["tag"] = ((), text_value(kw))
            for d in coords:
                if d in spec["sizes"]:
                    dv["lab"] = ((d,), np.array(
                        [text_value(kw) + "-%d" % i
                         for i in range(spec["sizes"][d])]))
                    break
        return xr.Dataset(dv, coords=coords)
    if ret == "dataarray":
        name, dims = spec["vars"][0]
        return xr.DataArray(outs[0], dims=tuple(dims), name=name,
                            coords={d: coords[d] for d in dims})
    if ret == "dict":
        items = [(name, (tuple(dims), o)) for (name, dims), o in
                 zip(spec["vars"], outs)]
        if spec.get("dict_plain") and all(not dims
                                          for _, dims in spec["vars"]):
            # a plain dict of scalars, filled in an order that depends on the
            # arguments (two code paths of the user's function)
            items = [(name, o) for (name, _), o in zip(spec["vars"], outs)]
            r = models.kw_number(kw, salt=13) % len(items)
            items = items[r:] + items[:r]
        return dict(items)
    raise ValueError(ret)


def make_fn(spec):
    return functools.partial(labelled_fn, _xv=spec)


def jsonable_constants(d):
    return {k: (list(v) if isinstance(v, (list, tuple)) else v)
            for k, v in d.items()}


# --------------------------------------------------------------------------- #
#                                 oracles                                     #
# --------------------------------------------------------------------------- #

def coord_equal(got, want):
    got = list(np.asarray(got).tolist()) if hasattr(got, "tolist") else list(got)
    if len(got) != len(want):
        return False
    for g, w in zip(got, want):
        if isinstance(w, str) != isinstance(g, str):
            return False
        if g != w:
            return False
    return True


def check_dataset(ds, *, spec, fn_args, coords, requested, fn_kwargs_extra,
                  constants, resources, attrs, var_coords, explicit_names,
                  tag="ds"):
    """``coords``: {arg: expected coordinate list}; ``requested``: None (full
    grid) or a set of value tuples in fn_args order; fn_kwargs_extra: the
    constants+resources every call received."""
    import xarray as xr
    if isinstance(ds, xr.DataArray) and spec["ret"] == "dataarray":
        # a DataArray-valued function legitimately sweeps to a DataArray
        attrs_ = dict(ds.attrs)
        ds = ds.to_dataset(name=ds.name or spec["vars"][0][0])
        ds.attrs = attrs_
    require(isinstance(ds, xr.Dataset), "not-a-dataset",
            f"{tag}: {type(ds).__name__}")
    names = [n for n, _ in spec["vars"]]
    require(set(names) <= set(ds.data_vars), "variables-missing",
            f"{tag}: data_vars {list(ds.data_vars)} expected {names}")
    for a in fn_args:
        require(a in ds.dims, "argument-not-a-dimension",
                f"{tag}: {a} not in dims {dict(ds.sizes)}")
        require(coord_equal(ds[a].values, coords[a]), "coordinate-values",
                f"{tag}: coordinate {a} = {ds[a].values.tolist()!r}, "
                f"expected {coords[a]!r}")
    for (name, dims) in spec["vars"]:
        want_dims = tuple(fn_args) + tuple(dims)
        if explicit_names:
            require(ds[name].dims == want_dims, "variable-dims",
                    f"{tag}: {name}.dims = {ds[name].dims}, expected "
                    f"{want_dims}")
        else:
            require(set(ds[name].dims) == set(want_dims), "variable-dims",
                    f"{tag}: {name}.dims = {ds[name].dims}, expected "
                    f"(a permutation of) {want_dims}")
    # every point by label
    for loc in itertools.product(*[coords[a] for a in fn_args]):
        kw = dict(zip(fn_args, loc))
        key = tuple(models.plain(v) for v in loc)
        is_req = requested is None or key in requested
        for j, (name, dims) in enumerate(spec["vars"]):
            da = ds[name].sel(kw)
            if dims:
                da = da.transpose(*dims)
            got = np.asarray(da.values)
            if is_req:
                full = dict(kw)
                full.update(fn_kwargs_extra)
                shape = tuple(spec["sizes"][d] for d in dims)
                want = (np.asarray(var_value(full, j, shape), dtype=float)
                        + spec.get("epoch", 0)) * spec.get("scale", 1)
                if not shape:
                    want = np.asarray(dtype_variant(spec, full, j,
                                                    float(want)), dtype=float)
                if spec.get("str_var") == j and not shape:
                    want = np.asarray("txt%d" % int(want))
                    ok = got.shape == () and str(got) == str(want)
                else:
                    ok = got.shape == want.shape and np.array_equal(
                        got.astype(float), want)
                require(ok, "value-at-label",
                        lambda: f"{tag}: {name}.sel({kw}) = "
                                f"{got.tolist()!r:.200}, the function "
                                f"returned {want.tolist()!r:.200}")
            else:
                require(bool(np.all(_isnull(got))), "unrequested-not-null",
                        lambda: f"{tag}: {name}.sel({kw}) = "
                                f"{got.tolist()!r:.200} but that setting was "
                                f"never requested")
    # internal coordinates
    for d, vals in (var_coords or {}).items():
        if d in ds.dims:
            require(coord_equal(ds[d].values, list(vals)),
                    "internal-coordinate",
                    f"{tag}: coord {d} = {ds[d].values.tolist()} expected "
                    f"{list(vals)}")
    # constants: coordinate iff they name a dimension, else attribute
    for k, v in (constants or {}).items():
        if k in ds.dims:
            require(k in ds.coords and coord_equal(ds[k].values, list(v)),
                    "constant-dimension-not-coordinate",
                    f"{tag}: constant {k}={v!r} names a dimension but "
                    f"coords[{k}] = "
                    f"{ds[k].values.tolist() if k in ds.coords else None}")
            require(k not in ds.attrs, "constant-dimension-in-attrs",
                    f"{tag}: constant {k} names a dimension but is an attr")
        else:
            require(k in ds.attrs and models.deep_eq(ds.attrs[k], v),
                    "constant-not-recorded",
                    f"{tag}: constant {k}={v!r} not in attrs "
                    f"{dict(ds.attrs)!r:.300}")
            require(k not in ds.coords, "constant-as-coordinate",
                    f"{tag}: plain constant {k} became a coordinate")
    for k in (resources or {}):
        if k in (constants or {}):
            continue        # (recorded - as the constant of that name)
        require(k not in ds.attrs and k not in ds.coords
                and k not in ds.data_vars, "resource-recorded",
                f"{tag}: resource {k} was recorded")
    for k, v in (attrs or {}).items():
        require(k in ds.attrs and models.deep_eq(ds.attrs[k], v),
                "attribute-lost", f"{tag}: attr {k}={v!r} missing from "
                                  f"{dict(ds.attrs)!r:.300}")


def _isnull(arr):
    if arr.dtype.kind in "fc":
        return np.isnan(arr)
    if arr.dtype.kind == "O":
        return np.array([x is None or (isinstance(x, float) and math.isnan(x))
                         for x in arr.ravel()]).reshape(arr.shape)
    return np.zeros(arr.shape, dtype=bool)


def check_dataframe(df, *, spec, fn_args, settings, fn_kwargs_extra,
                    constants, resources, attrs, tag="df", n_rows=None):
    """One row per evaluated setting, each row's outputs == f(row's args)."""
    import pandas as pd
    require(isinstance(df, pd.DataFrame), "not-a-dataframe",
            f"{tag}: {type(df).__name__}")
    want_rows = len(settings) if n_rows is None else n_rows
    require(len(df) == want_rows, "row-count",
            f"{tag}: {len(df)} rows for {want_rows} evaluated settings")
    names = [n for n, _ in spec["vars"]]
    for col in list(fn_args) + names:
        require(col in df.columns, "column-missing",
                f"{tag}: column {col} missing from {list(df.columns)}")
    for r in (resources or {}):
        if r in (constants or {}):
            continue
        require(r not in df.columns, "resource-recorded",
                f"{tag}: resource column {r}")
    seen = []
    for i in range(len(df)):
        row = df.iloc[i]
        kw = {a: models.plain(row[a]) for a in fn_args}
        seen.append(tuple(kw[a] for a in fn_args))
        full = dict(kw)
        full.update(fn_kwargs_extra)
        for j, name in enumerate(names):
            want = (var_value(full, j, ()) + spec.get("epoch", 0)) * \
                spec.get("scale", 1)
            want = float(dtype_variant(spec, full, j, want))
            got = row[name]
            if spec.get("str_var") == j:
                want = "txt%d" % int(want)
                require(str(got) == want, "row-mispaired",
                        lambda: f"{tag}: row {i} has arguments {kw} with "
                                f"{name}={got!r}; the function returned "
                                f"{want!r} for these arguments")
                continue
            require(float(got) == want, "row-mispaired",
                    lambda: f"{tag}: row {i} has arguments {kw} with "
                            f"{name}={got!r}; the function returned {want!r} "
                            f"for these arguments")
        for k, v in (constants or {}).items():
            if k in df.columns and not isinstance(v, (list, tuple)):
                require(models.plain(row[k]) == models.plain(v),
                        "constant-column", f"{tag}: row {i} {k}={row[k]!r}")
        for k, v in (attrs or {}).items():
            require(k in df.columns and models.plain(row[k]) ==
                    models.plain(v), "attr-column",
                    f"{tag}: row {i} attr {k}")
    if settings is not None:
        want = sorted(tuple(models.plain(v) for v in s) for s in settings)
        got = sorted(seen, key=_sort_key)
        want = sorted(want, key=_sort_key)
        require(got == want, "rows-not-the-settings",
                lambda: f"{tag}: rows cover {got!r:.300}, expected "
                        f"{want!r:.300}")


def _sort_key(t):
    return tuple((0, v) if not isinstance(v, str) else (1, v) for v in t)
