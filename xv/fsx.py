"""File-operation interception, from the outside (no hooks in xyzpy).

While installed, calls of builtins.open / os.replace / os.rename / os.remove /
os.unlink / os.path.exists / os.path.isfile / glob.glob / shutil.rmtree /
os.makedirs / time.sleep made by *registered actors* (threads, or the whole
process in crash mode) on paths under a *root* are reported to a controller
before they take effect.  Everything else passes through untouched.

Two controllers are built on this:

* :class:`Baton` - a cooperative scheduler: actors are threads, exactly one
  runs at a time, every intercepted operation is a yield point and the
  schedule (which actor goes next) is an input (C11);
* :class:`CrashAt` - counts operations in a (forked) process and calls
  ``os._exit`` at the k-th one, optionally after writing only a prefix (C10).
"""
import io
import os
import sys
import glob as _glob
import time as _time
import shutil as _shutil
import builtins
import threading

_real = {
    "open": builtins.open, "replace": os.replace, "rename": os.rename,
    "remove": os.remove, "unlink": os.unlink, "exists": os.path.exists,
    "isfile": os.path.isfile, "glob": _glob.glob, "rmtree": _shutil.rmtree,
    "makedirs": os.makedirs, "sleep": _time.sleep, "rmdir": os.rmdir,
    "listdir": os.listdir, "scandir": os.scandir,
}
_tls = threading.local()


class bypass:
    """Inside this block the calling thread's file operations are not
    intercepted (used around the real implementation of composite calls such
    as glob, and by harness code that inspects the files)."""

    def __enter__(self):
        self._old = getattr(_tls, "off", False)
        _tls.off = True

    def __exit__(self, *exc):
        _tls.off = self._old
        return False


CHUNK = 8192
RMTREE_ORDER = "scandir"     # or 'sorted' / 'reversed' (listing order)


class _Writer:
    """Stand-in for the object returned by open(path, 'wb')."""

    def __init__(self, ctl, path, mode):
        self._ctl, self._path = ctl, path
        self.name = path
        self.mode = mode
        self.closed = False
        ctl.writers.append(self)       # renames move open writers along
        if ctl.wanted(path):
            ctl.op("create", path)
        self._f = _real["open"](path, mode, buffering=0)

    def write(self, data):
        data = bytes(data)
        n = len(data)
        pos = 0
        # a buffered writer can expose the file at multiples of the buffer
        # size; bound the number of yield points per write call
        if not self._ctl.wanted(self._path):
            self._f.write(data)         # invisible to everybody else
            return n
        cuts = list(range(CHUNK, n, CHUNK))[:3]
        for end in cuts + [n]:
            part = data[pos:end]
            cut = self._ctl.op("write", self._path, size=len(part))
            if cut is not None:          # crash mode: torn write
                self._f.write(part[:cut])
                self._ctl.die()
            self._f.write(part)
            pos = end
        return n

    def flush(self):
        pass

    def close(self):
        if not self.closed:
            if self._ctl.wanted(self._path):
                self._ctl.op("close", self._path)
            self._f.close()
            self.closed = True
            if self in self._ctl.writers:
                self._ctl.writers.remove(self)

    def fileno(self):
        # no descriptor-level shortcuts (os.sendfile, copy_file_range ...):
        # every byte has to pass through write(), where the yield points are
        import io
        raise io.UnsupportedOperation("fileno")

    def writable(self):
        return True

    def readable(self):
        return False

    def seekable(self):
        return False

    def tell(self):
        return self._f.tell()

    def __enter__(self):
        return self

    def __exit__(self, *exc):
        self.close()
        return False


class _TextWriter:
    """open(path, 'w' / 'a') in text mode: what is written goes, encoded,
    through a _Writer (so appends and rewrites of text files - csv tables -
    are operations like any other)."""

    def __init__(self, raw, encoding=None, newline=None):
        self._raw = raw
        self.name = raw.name
        self.mode = raw.mode.replace("b", "")
        self.encoding = encoding or "utf-8"
        self._newline = newline

    def write(self, text):
        if self._newline is None:
            text = text.replace("\n", os.linesep)
        self._raw.write(text.encode(self.encoding))
        return len(text)

    def writelines(self, lines):
        for ln in lines:
            self.write(ln)

    def flush(self):
        pass

    def close(self):
        self._raw.close()

    @property
    def closed(self):
        return self._raw.closed

    def fileno(self):
        return self._raw.fileno()

    def writable(self):
        return True

    def readable(self):
        return False

    def seekable(self):
        return False

    def tell(self):
        return self._raw.tell()

    def __enter__(self):
        return self

    def __exit__(self, *exc):
        self.close()
        return False


class _Reader(io.BytesIO):
    """open(path, 'rb'): existence is decided at open, content at first
    read (two yield points: open-r, read)."""

    def __init__(self, ctl, path):
        super().__init__()
        self._ctl, self._path, self._loaded = ctl, path, False
        ctl.op("open-r", path)
        self._f = _real["open"](path, "rb")      # may raise FileNotFoundError
        self.name = path

    def _load(self):
        if not self._loaded:
            self._loaded = True
            self._ctl.op("read", self._path)
            data = self._f.read()
            self._f.close()
            super().write(data)
            super().seek(0)

    def read(self, *a):
        self._load()
        return super().read(*a)

    def readinto(self, b):
        self._load()
        return super().readinto(b)

    def readline(self, *a):
        self._load()
        return super().readline(*a)

    def peek(self, n=0):
        self._load()
        pos = self.tell()
        data = super().read(n or -1)
        self.seek(pos)
        return data

    def close(self):
        try:
            self._f.close()
        except Exception:
            pass
        super().close()


class Interceptor:
    """Installs the wrappers; ``controller.op(kind, path, **info)`` is called
    for operations by active actors under ``root``."""

    def __init__(self, root, controller, all_threads=False):
        self.root = os.path.abspath(root) + os.sep
        self.ctl = controller
        self.all_threads = all_threads
        self.count = 0

    def _under(self, path):
        """Path under the root and the caller is an actor."""
        if getattr(_tls, "off", False):
            return None
        if not isinstance(path, (str, bytes, os.PathLike)):
            return None
        try:
            p = os.path.abspath(os.fspath(path))
        except Exception:
            return None
        if isinstance(p, bytes):
            return None
        if not (p + os.sep).startswith(self.root) and \
                not p.startswith(self.root):
            return None
        if not self.all_threads and not self.ctl.is_actor():
            return None
        return p

    def _mine(self, path):
        p = self._under(path)
        return p is not None and self.ctl.wants(p)

    def op(self, kind, path, **info):
        self.count += 1
        with bypass():              # the controller may inspect files itself
            pass
        return self.ctl.op(kind, path, **info)

    def install(self):
        me = self

        class _Ctl:      # adaptor so that file objects can call back
            writers = []

            def op(self_, kind, path, **info):
                return me.op(kind, path, **info)

            def wanted(self_, path):
                return me.ctl.wants(os.path.abspath(path))

            def die(self_):
                me.ctl.die()
        adaptor = _Ctl()
        adaptor.writers = []

        def x_open(file, mode="r", *a, **k):
            if ("w" in mode or "a" in mode) and "b" not in mode and \
                    "+" not in mode and isinstance(file, (str, os.PathLike)) \
                    and me._under(file) is not None:
                return _TextWriter(
                    _Writer(adaptor, os.path.abspath(os.fspath(file)),
                            mode.replace("t", "") + "b"),
                    k.get("encoding"), k.get("newline", None))
            if ("w" in mode or "a" in mode) and "b" in mode and \
                    "+" not in mode and me._under(file) is not None:
                # every binary writer under the root is wrapped: whether its
                # operations are yield points is decided by the name the file
                # has at that moment (a rename can make it visible)
                return _Writer(adaptor, os.path.abspath(os.fspath(file)),
                               mode)
            if me._mine(file):
                if "r" in mode and "b" in mode and "+" not in mode:
                    return _Reader(adaptor, os.fspath(file))
            return _real["open"](file, mode, *a, **k)

        def wrap2(kind, fn):
            def f(src, dst, *a, **k):
                if me._mine(dst) or me._mine(src):
                    me.op(kind, os.fspath(dst), src=os.fspath(src))
                out = fn(src, dst, *a, **k)
                if me._under(src) is not None:
                    asrc = os.path.abspath(os.fspath(src))
                    for w in adaptor.writers:
                        if w._path == asrc:
                            w._path = os.path.abspath(os.fspath(dst))
                return out
            return f

        def wrap1(kind, fn):
            def f(path, *a, **k):
                if me._mine(path):
                    me.op(kind, os.fspath(path))
                return fn(path, *a, **k)
            return f

        def x_glob(pattern, *a, **k):
            if me._mine(os.path.dirname(pattern)):
                me.op("glob", pattern)
            with bypass():          # its internal scandir is not a new op
                return _real["glob"](pattern, *a, **k)

        def x_rmtree(path, *a, **k):
            if not me._mine(path):
                return _real["rmtree"](path, *a, **k)
            # emulate rmtree (entries of a directory in listing order,
            # sub-directories recursively) with one yield point per unlink
            me.op("rmtree-begin", os.fspath(path))

            def rm(d):
                with _real["scandir"](d) as it:
                    entries = list(it)
                if RMTREE_ORDER == "sorted":
                    entries.sort(key=lambda e: e.name)
                elif RMTREE_ORDER == "reversed":
                    entries.sort(key=lambda e: e.name, reverse=True)
                for e in entries:
                    if e.is_dir(follow_symlinks=False):
                        rm(e.path)
                    else:
                        me.op("rmtree-unlink", e.path)
                        _real["unlink"](e.path)
                me.op("rmtree-rmdir", d)
                _real["rmdir"](d)
            ignore = k.get("ignore_errors", a[0] if a else False)
            try:
                rm(os.fspath(path))
            except OSError:
                if not ignore:
                    raise

        def x_sleep(t):
            if me.all_threads or me.ctl.is_actor():
                me.op("sleep", "")
                return None
            return _real["sleep"](t)

        def x_listdir(path="."):
            if me._mine(path):
                me.op("listdir", os.fspath(path))
            return _real["listdir"](path)

        def x_scandir(path="."):
            if me._mine(path):
                me.op("listdir", os.fspath(path))
            return _real["scandir"](path)

        os.listdir = x_listdir
        os.scandir = x_scandir
        builtins.open = x_open
        io.open = x_open
        os.replace = wrap2("replace", _real["replace"])
        os.rename = wrap2("rename", _real["rename"])
        os.remove = wrap1("remove", _real["remove"])
        os.unlink = wrap1("remove", _real["unlink"])
        os.path.exists = wrap1("exists", _real["exists"])
        os.path.isfile = wrap1("isfile", _real["isfile"])
        os.makedirs = wrap1("makedirs", _real["makedirs"])
        _glob.glob = x_glob
        _shutil.rmtree = x_rmtree
        _time.sleep = x_sleep

    @staticmethod
    def uninstall():
        builtins.open = _real["open"]
        io.open = _real["open"]
        os.replace = _real["replace"]
        os.rename = _real["rename"]
        os.remove = _real["remove"]
        os.unlink = _real["unlink"]
        os.path.exists = _real["exists"]
        os.path.isfile = _real["isfile"]
        os.makedirs = _real["makedirs"]
        _glob.glob = _real["glob"]
        _shutil.rmtree = _real["rmtree"]
        _time.sleep = _real["sleep"]
        os.listdir = _real["listdir"]
        os.scandir = _real["scandir"]


# --------------------------------------------------------------------------- #
#                           crash at the k-th operation                       #
# --------------------------------------------------------------------------- #

class CrashAt:
    """Count operations; at operation number ``k`` call os._exit(137).  For a
    write operation, ``prefix`` in {None, 0, 1, 'half', 'all-but-one'} first
    writes that much of the data (a torn write)."""

    def __init__(self, k=None, prefix=None, log=None, only=None):
        self.k, self.prefix = k, prefix
        self.n = 0
        self.trace = []
        self.log = log
        self.only = only          # path substring filter or None

    def is_actor(self):
        return True

    def wants(self, path):
        return self.only is None or self.only in path

    def die(self):
        os._exit(137)

    def op(self, kind, path, **info):
        i = self.n
        self.n += 1
        self.trace.append((kind, os.path.basename(path), info.get("size")))
        if self.k is not None and i == self.k:
            if kind == "write" and self.prefix is not None:
                size = info.get("size", 0)
                cut = {0: 0, 1: min(1, size), "half": size // 2,
                       "all-but-one": max(0, size - 1)}[self.prefix]
                return cut            # _Writer writes the prefix, then dies
            os._exit(137)
        return None


# --------------------------------------------------------------------------- #
#                              baton scheduler                                #
# --------------------------------------------------------------------------- #

class Deadlock(Exception):
    pass


class Baton:
    """Cooperative scheduler over actor threads.  ``schedule`` is a list of
    integers; at each decision the next integer (mod the number of runnable
    actors) picks who runs until its next yield point."""

    def __init__(self, schedule, max_steps=4000, wants=None, on_op=None,
                 default="rr"):
        self.default = default
        self.progress = 0         # operations other than 'sleep' so far
        self.schedule = list(schedule)
        self.pos = 0
        self.max_steps = max_steps
        self.steps = 0
        self.actors = []          # dicts: name, thread, go, done, exc, waiting
        self.by_ident = {}
        self.ctl_cv = threading.Condition()
        self.trace = []
        self._wants = wants
        self.on_op = on_op
        self.decisions = []       # (n_runnable, chosen) for exhaustive DFS

    # -- interceptor interface
    def is_actor(self):
        return threading.get_ident() in self.by_ident

    def wants(self, path):
        return self._wants is None or self._wants(path)

    def die(self):
        raise RuntimeError("die() in scheduler mode")

    def op(self, kind, path, **info):
        a = self.by_ident[threading.get_ident()]
        a["at"] = (kind, os.path.basename(path))
        if kind == "sleep":
            # a sleeper is not runnable again before somebody else has done
            # something (spinning without a state change is stutter)
            a["asleep_since"] = self.progress
        self._yield(a)
        a["asleep_since"] = None
        if kind != "sleep":
            self.progress += 1
        self.trace.append((a["name"], kind, os.path.basename(path)))
        if self.on_op is not None:
            self.on_op(a["name"], kind, path)
        return None

    # -- actor side
    def _yield(self, a):
        with self.ctl_cv:
            a["waiting"] = True
            self.ctl_cv.notify_all()
        a["go"].acquire()         # wait for the baton

    def add(self, name, fn):
        a = {"name": name, "fn": fn, "go": threading.Semaphore(0),
             "done": False, "exc": None, "waiting": False, "at": None,
             "result": None}

        def body():
            a["go"].acquire()     # wait for the first baton
            try:
                a["result"] = fn()
            except BaseException as e:  # noqa
                a["exc"] = e
            finally:
                with self.ctl_cv:
                    a["done"] = True
                    a["waiting"] = True
                    self.ctl_cv.notify_all()
        t = threading.Thread(target=body, name=f"actor-{name}", daemon=True)
        a["thread"] = t
        self.actors.append(a)
        return a

    def run(self):
        for a in self.actors:
            a["thread"].start()
            self.by_ident[a["thread"].ident] = a
            a["waiting"] = True
        while True:
            alive = [a for a in self.actors if not a["done"]]
            if not alive:
                break
            runnable = [a for a in alive
                        if a.get("asleep_since") is None
                        or a["asleep_since"] < self.progress]
            if not runnable:
                raise Deadlock(
                    "every live actor is waiting for a change nobody will "
                    f"make: {[(a['name'], a['at']) for a in alive]}")
            self.steps += 1
            if self.steps > self.max_steps:
                raise Deadlock(
                    f"no progress after {self.max_steps} steps; waiting at "
                    f"{[(a['name'], a['at']) for a in runnable]}")
            if self.pos < len(self.schedule):
                c = self.schedule[self.pos] % len(runnable)
            elif self.default == "zero":
                c = 0
            else:
                c = (self.steps + len(self.schedule)) % len(runnable)
            self.pos += 1
            self.decisions.append((len(runnable), c))
            a = runnable[c]
            with self.ctl_cv:
                a["waiting"] = False
                a["started"] = True
            a["go"].release()
            with self.ctl_cv:
                while not a["waiting"]:
                    if not self.ctl_cv.wait(timeout=30):
                        raise Deadlock(f"actor {a['name']} did not come "
                                       f"back (at {a['at']})")
        for a in self.actors:
            a["thread"].join(timeout=5)
        return {a["name"]: a for a in self.actors}
