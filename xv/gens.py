"""Shared Hypothesis strategies.  Every strategy yields JSON-serialisable
data; run_case functions turn it into real objects."""
from hypothesis import strategies as st

ARG_NAMES = ["a", "b", "c", "d", "e", "x", "y", "z", "n", "k", "mu", "phi"]
CONST_NAMES = ["p", "q", "r0", "s_", "tt"]

ints = st.integers(-50, 50)
floats = st.one_of(
    st.sampled_from([0.5, -1.5, 2.25, 1e-3, 3.75, 100.125, -0.1, 0.1, 1e6]),
    st.floats(-1000, 1000, allow_nan=False).map(lambda f: round(f, 3)),
)
strs = st.sampled_from(["u", "v", "w", "xx", "Yy", "z9", "", "a b", "k_1",
                        "Z", "aa", "ab"])


def _key(v):
    # python equality classes: 1 == 1.0
    return ("s", v) if isinstance(v, str) else ("n", float(v))


def values(min_size=1, max_size=4, family=None):
    """A list of hash-distinct values; ``family`` in {None (mixed allowed),
    'int', 'float', 'str', 'num'}."""
    if family == "int":
        elem = ints
    elif family == "float":
        elem = floats
    elif family == "str":
        elem = strs
    elif family == "num":
        elem = ints | floats
    else:
        elem = st.one_of(ints, floats, strs)
    return st.lists(elem, min_size=min_size, max_size=max_size,
                    unique_by=_key)


@st.composite
def arg_values(draw, min_size=1, max_size=4, mixed=True):
    fam = draw(st.sampled_from(
        ["int", "int", "float", "str", "num"] + ([None] if mixed else [])))
    return draw(values(min_size, max_size, fam))


@st.composite
def grid(draw, min_args=1, max_args=5, max_vals=4, mixed=True, names=None):
    """-> list of [name, values] in a drawn (not alphabetical) order."""
    n = draw(st.integers(min_args, max_args))
    pool = names or ARG_NAMES
    names = draw(st.lists(st.sampled_from(pool), min_size=n, max_size=n,
                          unique=True))
    return [[nm, draw(arg_values(1, max_vals, mixed))] for nm in names]


@st.composite
def constants(draw, max_n=2):
    n = draw(st.integers(0, max_n))
    names = draw(st.lists(st.sampled_from(CONST_NAMES), min_size=n,
                          max_size=n, unique=True))
    return {nm: draw(st.one_of(ints, floats, strs)) for nm in names}


def container_choice(vals):
    """Which container spellings are possible for this list of values."""
    out = ["list", "tuple"]
    if all(isinstance(v, int) for v in vals):
        out.append("ndarray")
        if len(vals) >= 1 and vals == list(range(vals[0], vals[0] + len(vals))):
            out.append("range")
    elif all(isinstance(v, (int, float)) for v in vals) and \
            all(isinstance(v, float) for v in vals):
        out.append("ndarray")
    return out


def build_container(vals, kind):
    import numpy as np
    if kind == "tuple":
        return tuple(vals)
    if kind == "range":
        return range(vals[0], vals[0] + len(vals))
    if kind == "ndarray":
        return np.array(vals)
    # one-shot iterables ("combos : dict_like[str, iterable]")
    if kind == "iter":
        return iter(list(vals))
    if kind == "generator":
        return (v for v in list(vals))
    if kind == "map":
        return map(lambda v: v, list(vals))
    return list(vals)


@st.composite
def case_set(draw, min_args=1, max_args=4, max_cases=8, names=None):
    """Distinct cases with uniform keys; per argument one sortable family.
    -> {"args": [...], "cases": [[v, ...], ...]}"""
    n = draw(st.integers(min_args, max_args))
    pool = names or ARG_NAMES
    args = draw(st.lists(st.sampled_from(pool), min_size=n, max_size=n,
                         unique=True))
    fams = [draw(st.sampled_from(["int", "str", "num", "int"])) for _ in args]
    pools = [draw(values(2 if n > 1 else 1, 4, f)) for f in fams]
    total = 1
    for p in pools:
        total *= len(p)
    want = min(total, max_cases,
               draw(st.sampled_from([2, 3, 1, 4, 2, 5, 3, 6, 8])))
    case = st.tuples(*[st.sampled_from(p) for p in pools])
    cases = draw(st.lists(case, min_size=want, max_size=max_cases,
                          unique_by=lambda c: tuple(_key(v) for v in c)))
    return {"args": args, "cases": [list(c) for c in cases]}
