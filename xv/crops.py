"""Helpers shared by the crop properties (C04, C06-C12, C15, C16)."""
import os
import re
import glob
import pickle
import hashlib
import functools
import itertools

from . import core, models


def crop_dir(root, name):
    return os.path.join(root, f".xyz-{name}")


def record(kind="int", logfile=None, slow=None, seeds=False):
    return functools.partial(models.record_fn,
                             _xv=(kind, logfile, slow, seeds))


def batch_ids(root, name):
    files = glob.glob(os.path.join(glob.escape(crop_dir(root, name)),
                                   "batches",
                                   "xyz-batch-*.jbdmp"))
    return sorted(int(re.findall(r"xyz-batch-(\d+)\.jbdmp$", f)[0])
                  for f in files)


def result_ids(root, name):
    files = glob.glob(os.path.join(glob.escape(crop_dir(root, name)),
                                   "results",
                                   "xyz-result-*.jbdmp"))
    return sorted(int(re.findall(r"xyz-result-(\d+)\.jbdmp$", f)[0])
                  for f in files)


def read_batch(root, name, i):
    with open(os.path.join(crop_dir(root, name), "batches",
                           f"xyz-batch-{i}.jbdmp"), "rb") as f:
        return pickle.load(f)


def result_path(root, name, i):
    return os.path.join(crop_dir(root, name), "results",
                        f"xyz-result-{i}.jbdmp")


def factorisations(n, max_factors=3):
    """Some ordered factorisations of n into 1..max_factors factors >= 1."""
    out = [(n,)]
    for a in range(2, n):
        if n % a == 0:
            out.append((a, n // a))
            b = n // a
            for c in range(2, b):
                if b % c == 0 and max_factors >= 3:
                    out.append((a, c, b // c))
    return out


def tree_digest(path):
    """{relative path: sha256 of content} for a directory tree."""
    out = {}
    for dp, dn, fn in os.walk(path):
        for d in dn:
            out[os.path.relpath(os.path.join(dp, d), path) + "/"] = "dir"
        for f in fn:
            p = os.path.join(dp, f)
            with open(p, "rb") as fh:
                out[os.path.relpath(p, path)] = hashlib.sha256(
                    fh.read()).hexdigest()
    return out


def grid_from_shape(shape, names=("b", "a", "c", "d")):
    """Deterministic grid with the given sizes; names deliberately not in
    alphabetical order (sow_combos sorts them)."""
    return [[names[i], list(range(10 * (i + 1), 10 * (i + 1) + n))]
            for i, n in enumerate(shape)]
