"""Runner for the xyzpy property checks.

    ./check <ID> [--tier quick|thorough] [--replay file] [--shards N]

* every property lives in ``xv/props/<ID>.py`` and exposes ``PHASES`` (a list
  of :class:`Phase`), ``LEVEL``, ``RULE`` and ``ASSUMPTIONS``;
* a *case* is a JSON-serialisable value, ``run_case(case)`` is a pure function
  of the case and the code under test which raises :class:`PropertyViolation`;
* Hypothesis only generates and shrinks; enumerated phases iterate a finite
  space; both are sharded over processes;
* exit 0 = held, 1 = violation (``VIOLATION property=<id> replay=<path>``),
  2 = harness error / inconclusive.
"""
import os
import sys
import json
import time
import glob
import hashlib
import argparse
import traceback
import importlib
import contextlib
import tempfile
import shutil
import dataclasses
import concurrent.futures
import multiprocessing

VERIF = os.path.dirname(os.path.dirname(os.path.abspath(__file__)))
REPO = os.path.abspath(os.environ.get("VERIF_REPO", "/repo"))
OUT = os.environ.get("XV_OUT") or os.path.join(VERIF, "out")
EVID = os.environ.get("XV_EVIDENCE_DIR") or os.path.join(VERIF, "evidence")
MAX_SAMPLES = 10
MAX_VIOLATIONS_PER_PHASE = 3


# --------------------------------------------------------------------------- #
#                             basic vocabulary                                #
# --------------------------------------------------------------------------- #

class PropertyViolation(Exception):
    """The code under test broke the property on this case."""

    def __init__(self, key, detail=""):
        super().__init__(f"{key}: {detail}")
        self.key = key
        self.detail = detail


class HarnessError(Exception):
    """The harness itself could not do its job (never a violation)."""


def violated(key, detail=""):
    raise PropertyViolation(key, str(detail)[:4000])


def require(cond, key, detail=""):
    if not cond:
        if callable(detail):
            detail = detail()
        violated(key, detail)


def _innermost_repo_frame(tb):
    where = None
    for fs in traceback.extract_tb(tb):
        fn = os.path.abspath(fs.filename)
        if fn.startswith(REPO + os.sep):
            where = f"{os.path.relpath(fn, REPO)}:{fs.name}"
    return where


@contextlib.contextmanager
def under_test(what="call", expect=()):
    """Run code under test: any exception that is not explicitly expected is a
    violation of 'valid input is handled' (keyed by type and innermost
    repository frame), never a harness error."""
    try:
        yield
    except PropertyViolation:
        raise
    except expect:
        raise
    except (KeyboardInterrupt, SystemExit, MemoryError):
        raise
    except BaseException as e:  # noqa
        where = _innermost_repo_frame(e.__traceback__)
        tb = "".join(traceback.format_exception(type(e), e, e.__traceback__))
        raise PropertyViolation(
            f"exception:{type(e).__name__}@{where}",
            f"{what} raised {type(e).__name__}: {e}\n{tb[-2500:]}",
        ) from None


@dataclasses.dataclass
class Phase:
    name: str
    run_case: object
    strategy: object = None        # () -> hypothesis strategy
    enumerate: object = None       # (tier, seed) -> iterable of cases
    examples: object = None        # {'quick': n, 'thorough': n} for strategy
    nontrivial: object = None      # case -> bool
    classes: object = None         # case -> list[str]
    shrink: object = True          # bool or {'quick':..,'thorough':..}
    distinct_by_construction: bool = False
    tiers: tuple = ("quick", "thorough")
    shards: object = None          # max shards {'quick': n, 'thorough': n}
    exhaustive: object = False     # bool or {'quick':..,'thorough':..}
    setup: object = None           # () -> None run once per worker
    stateful: object = None        # (settings, seed, record) -> None
    custom: object = None          # (rec, tier, seed, shard, nshards) -> None
    steps: object = None           # stateful_step_count per tier


def canon(case):
    return json.dumps(case, sort_keys=True, default=repr, separators=(",", ":"))


def case_hash(case):
    return hashlib.blake2b(canon(case).encode(), digest_size=8).digest()


def scratch_root():
    root = os.environ.get("XV_TMP")
    if not root:
        root = "/dev/shm" if os.path.isdir("/dev/shm") else tempfile.gettempdir()
    return root


@contextlib.contextmanager
def scratch(prefix="xv-"):
    d = tempfile.mkdtemp(prefix=prefix, dir=scratch_root())
    try:
        yield d
    finally:
        shutil.rmtree(d, ignore_errors=True)


@contextlib.contextmanager
def quiet():
    """Silence prints of the code under test (grow, check_bad, progress)."""
    devnull = open(os.devnull, "w")
    old_out, old_err = sys.stdout, sys.stderr
    sys.stdout, sys.stderr = devnull, devnull
    try:
        yield
    finally:
        sys.stdout, sys.stderr = old_out, old_err
        devnull.close()


def import_target():
    """Import xyzpy from the working tree under test and make sure it is it."""
    if REPO not in sys.path:
        sys.path.insert(0, REPO)
    import xyzpy
    got = os.path.abspath(xyzpy.__file__)
    if not got.startswith(REPO + os.sep):
        raise HarnessError(f"xyzpy imported from {got}, expected under {REPO}")
    return xyzpy


# --------------------------------------------------------------------------- #
#                               known findings                                #
# --------------------------------------------------------------------------- #

def load_known(pid):
    """Parse known_findings.txt -> (open {key: text}, fixed [text])."""
    path = os.path.join(VERIF, "known_findings.txt")
    open_, fixed = {}, []
    if not os.path.exists(path):
        return open_, fixed
    for line in open(path):
        line = line.strip()
        if not line or line.startswith("#"):
            continue
        if line.startswith("fixed:"):
            if f"property={pid} " in line:
                fixed.append(line)
        elif line.startswith("open:"):
            # open: property=C09 key=<key> <what fails>
            parts = line.split(None, 3)
            if len(parts) >= 3 and parts[1] == f"property={pid}":
                key = parts[2].split("=", 1)[1]
                open_[key] = parts[3] if len(parts) > 3 else ""
    return open_, fixed


# --------------------------------------------------------------------------- #
#                             per-shard execution                             #
# --------------------------------------------------------------------------- #

class Stats:
    def __init__(self):
        self.evaluations = 0
        self.nontrivial = 0
        self.nt_hashes = set()
        self.classes = {}
        self.samples = {}
        self.known = {}
        self.violations = []   # dicts
        self.notes = {}

    def dump(self):
        return self.__dict__

    @staticmethod
    def merge(dicts):
        s = Stats()
        for d in dicts:
            s.evaluations += d["evaluations"]
            s.nontrivial += d["nontrivial"]
            s.nt_hashes |= d["nt_hashes"]
            for k, v in d["classes"].items():
                s.classes[k] = s.classes.get(k, 0) + v
            for k, v in d["samples"].items():
                s.samples.setdefault(k, v)
            for k, v in d["known"].items():
                s.known[k] = s.known.get(k, 0) + v
            s.violations += d["violations"]
            for k, v in d["notes"].items():
                if isinstance(v, (int, float)) and not isinstance(v, bool):
                    s.notes[k] = s.notes.get(k, 0) + v
                else:
                    s.notes.setdefault(k, v)
        return s


def derive_seed(seed, pid, phase, shard):
    h = hashlib.sha256(f"{seed}|{pid}|{phase}|{shard}".encode()).digest()
    return int.from_bytes(h[:8], "big")


def _tier_val(v, tier, default=None):
    if isinstance(v, dict):
        return v.get(tier, default)
    return default if v is None else v


class Recorder:
    """Executes run_case on a case and keeps the books."""

    def __init__(self, phase, open_known):
        self.phase = phase
        self.open_known = open_known
        self.stats = Stats()

    def __call__(self, case):
        ph, st = self.phase, self.stats
        st.evaluations += 1
        info = None
        exc = None
        try:
            info = ph.run_case(case)
        except PropertyViolation as e:
            exc = e
        info = info or {}
        if "nontrivial" in info:
            nt = bool(info["nontrivial"])
        elif ph.nontrivial is not None:
            nt = bool(ph.nontrivial(case))
        else:
            nt = True
        classes = list(info.get("classes", ()))
        if ph.classes is not None:
            classes += list(ph.classes(case))
        if nt:
            if ph.distinct_by_construction:
                st.nontrivial += 1
            else:
                st.nt_hashes.add(case_hash(case))
            classes.append("nontrivial")
        for c in classes:
            st.classes[c] = st.classes.get(c, 0) + 1
            if c not in st.samples and len(st.samples) < MAX_SAMPLES:
                st.samples[c] = _trim(case)
        for k, v in info.get("notes", {}).items():
            st.notes[k] = st.notes.get(k, 0) + v
        if exc is not None:
            if exc.key in self.open_known:
                st.known[exc.key] = st.known.get(exc.key, 0) + 1
                return
            raise exc


def _trim(case, limit=1500):
    s = canon(case)
    if len(s) <= limit:
        return case
    return {"truncated_json": s[:limit] + "..."}


def run_shard(pid, phase_name, tier, seed, shard, nshards, n_examples):
    """Worker entry point (forked).  Returns a picklable stats dict."""
    t0 = time.time()
    try:
        import_target()
        mod = importlib.import_module(f"xv.props.{pid}")
        phase = next(p for p in mod.PHASES if p.name == phase_name)
        open_known, _ = load_known(pid)
        rec = Recorder(phase, open_known)
        if phase.setup is not None:
            phase.setup()
        sseed = derive_seed(seed, pid, phase_name, shard)
        if phase.strategy is not None:
            _run_hypothesis(pid, phase, rec, tier, sseed, n_examples)
        elif phase.stateful is not None:
            _run_stateful(pid, phase, rec, tier, sseed, n_examples)
        elif phase.custom is not None:
            phase.custom(rec, tier, sseed, shard, nshards)
        else:
            _run_enumeration(pid, phase, rec, tier, seed, shard, nshards)
        out = rec.stats.dump()
        out["error"] = None
    except BaseException as e:  # harness problem
        out = Stats().dump()
        out["error"] = "".join(
            traceback.format_exception(type(e), e, e.__traceback__))[-6000:]
    _shutdown_loky()
    out["wall"] = time.time() - t0
    return out


def _shutdown_loky():
    """Do not leave loky's reusable workers to the interpreter exit hooks."""
    mod = sys.modules.get("joblib.externals.loky.reusable_executor")
    if mod is None:
        return
    try:
        ex = getattr(mod, "_executor", None)
        if ex is not None:
            ex.shutdown(wait=True, kill_workers=True)
    except Exception:
        pass


def _record_violation(pid, phase, rec, case, exc, shrunk):
    rec.stats.violations.append({
        "property": pid, "phase": phase.name, "case": case,
        "key": exc.key, "detail": exc.detail, "shrunk": shrunk,
    })


def _run_enumeration(pid, phase, rec, tier, seed, shard, nshards):
    seen_keys = {}
    for i, case in enumerate(phase.enumerate(tier, seed)):
        if i % nshards != shard:
            continue
        try:
            with quiet():
                rec(case)
        except PropertyViolation as e:
            seen_keys[e.key] = seen_keys.get(e.key, 0) + 1
            if seen_keys[e.key] == 1 and len(seen_keys) <= MAX_VIOLATIONS_PER_PHASE:
                _record_violation(pid, phase, rec, case, e, shrunk=False)
            if sum(seen_keys.values()) > 200:
                break


def _hyp_settings(phase, tier, n_examples):
    import hypothesis
    from hypothesis import HealthCheck, Phase as HPhase
    phases = [HPhase.explicit, HPhase.generate, HPhase.target]
    if _tier_val(phase.shrink, tier, True):
        phases.append(HPhase.shrink)
    return hypothesis.settings(
        max_examples=n_examples,
        database=None,
        deadline=None,
        derandomize=False,
        report_multiple_bugs=False,
        phases=phases,
        suppress_health_check=[HealthCheck.too_slow,
                               HealthCheck.data_too_large,
                               HealthCheck.large_base_example],
        stateful_step_count=_tier_val(getattr(phase, "steps", None), tier, 30),
        print_blob=False,
    )


def _run_hypothesis(pid, phase, rec, tier, sseed, n_examples):
    import hypothesis
    from hypothesis import given

    excluded_keys = set()
    for _attempt in range(MAX_VIOLATIONS_PER_PHASE):
        last = {}

        @hypothesis.seed(sseed + _attempt)
        @_hyp_settings(phase, tier, n_examples)
        @given(phase.strategy())
        def test(case):
            try:
                with quiet():
                    rec(case)
            except PropertyViolation as e:
                if e.key in excluded_keys:
                    # already reported: keep searching behind it
                    rec.stats.known[e.key] = rec.stats.known.get(e.key, 0) + 1
                    return
                last["case"], last["exc"] = case, e
                raise

        try:
            test()
            return
        except PropertyViolation:
            pass
        except hypothesis.errors.Flaky:
            if "exc" not in last:
                raise
        # minimal failing example is the last failing one executed
        _record_violation(pid, phase, rec, last["case"], last["exc"],
                          shrunk=bool(_tier_val(phase.shrink, tier, True)))
        excluded_keys.add(last["exc"].key)
        if tier == "quick":
            return


def _run_stateful(pid, phase, rec, tier, sseed, n_examples):
    settings = _hyp_settings(phase, tier, n_examples)
    phase.stateful(settings, sseed, rec)


# --------------------------------------------------------------------------- #
#                                   driver                                    #
# --------------------------------------------------------------------------- #

def _load_module(pid):
    import_target()
    return importlib.import_module(f"xv.props.{pid}")


def replay_file(pid, path, quiet_mode=True):
    """Run one replay file.  Returns None or PropertyViolation."""
    mod = _load_module(pid)
    with open(path) as f:
        rep = json.load(f)
    phase = next((p for p in mod.PHASES if p.name == rep["phase"]), None)
    if phase is None:
        raise HarnessError(f"{path}: unknown phase {rep['phase']!r}")
    if phase.setup is not None:
        phase.setup()
    try:
        if quiet_mode:
            with quiet():
                phase.run_case(rep["case"])
        else:
            phase.run_case(rep["case"])
    except PropertyViolation as e:
        return e
    return None


def write_violation(v):
    d = os.path.join(OUT, "violations", v["property"])
    os.makedirs(d, exist_ok=True)
    h = hashlib.sha256(canon(v["case"]).encode()).hexdigest()[:12]
    path = os.path.join(d, f"{v['phase']}-{h}.json")
    with open(path, "w") as f:
        json.dump(v, f, indent=1, sort_keys=True, default=repr)
    return path


def main(argv=None):
    ap = argparse.ArgumentParser()
    ap.add_argument("pid")
    ap.add_argument("--tier", default=os.environ.get("VERIF_TIER") or "quick",
                    choices=["quick", "thorough"])
    ap.add_argument("--replay")
    ap.add_argument("--shards", type=int,
                    default=int(os.environ.get("XV_SHARDS", "16")))
    ap.add_argument("--phase", action="append")
    ap.add_argument("--scale", type=float,
                    default=float(os.environ.get("XV_SCALE", "1")))
    args = ap.parse_args(argv)
    pid = args.pid
    seed = int(os.environ.get("VERIF_SEED") or "0")
    t0 = time.time()

    try:
        if args.replay:
            exc = replay_file(pid, args.replay, quiet_mode=False)
            if exc is None:
                print(f"replay {args.replay}: property held")
                return 0
            print(f"replay {args.replay}: {exc.key}\n{exc.detail}")
            print(f"VIOLATION property={pid} replay={args.replay}")
            return 1
        return _run_check(pid, args, seed, t0)
    except HarnessError as e:
        print(f"HARNESS-ERROR property={pid}: {e}")
        return 2
    except Exception:
        traceback.print_exc()
        print(f"HARNESS-ERROR property={pid}: unexpected exception")
        return 2


def _run_check(pid, args, seed, t0):
    tier = args.tier
    mod = _load_module(pid)
    open_known, fixed_known = load_known(pid)
    violations = []          # (path, key, detail)
    known_lines = []

    shutil.rmtree(os.path.join(OUT, "violations", pid), ignore_errors=True)

    # --- regression tier: committed replays ------------------------------
    replays = sorted(glob.glob(os.path.join(VERIF, "replays", pid, "*.json")))
    n_replays = 0
    for path in replays:
        exc = replay_file(pid, path)
        n_replays += 1
        base = os.path.basename(path)
        if base.startswith("known-"):
            key = json.load(open(path)).get("key")
            if exc is not None and exc.key in open_known:
                known_lines.append(
                    f"KNOWN-FINDING: property={pid} {open_known[exc.key]} "
                    f"[key={exc.key} replay=replays/{pid}/{base}]")
            elif exc is not None:
                violations.append((path, exc.key, exc.detail))
            else:
                print(f"note: listed finding {key} no longer reproduces "
                      f"({base})")
        elif exc is not None:
            if exc.key in open_known:
                continue
            violations.append((path, exc.key, exc.detail))

    # --- generated search --------------------------------------------------
    phases = [p for p in mod.PHASES if tier in p.tiers
              and (not args.phase or p.name in args.phase)]
    tasks = []
    for ph in phases:
        if ph.strategy is not None or ph.stateful is not None:
            n = int(_tier_val(ph.examples, tier, 100) * args.scale)
            nsh = min(args.shards, _tier_val(ph.shards, tier, args.shards),
                      max(1, n // 5))
            per = -(-n // nsh)
        else:
            nsh = min(args.shards, _tier_val(ph.shards, tier, args.shards))
            per = 0
        for s in range(nsh):
            tasks.append((pid, ph.name, tier, seed, s, nsh, per))

    results = {}
    errors = []
    ctx = multiprocessing.get_context("fork")
    with concurrent.futures.ProcessPoolExecutor(
            max_workers=max(1, args.shards), mp_context=ctx) as pool:
        futs = {pool.submit(run_shard, *t): t for t in tasks}
        for fut in concurrent.futures.as_completed(futs):
            t = futs[fut]
            try:
                res = fut.result()
            except Exception as e:  # worker died
                errors.append(f"{t[1]} shard {t[4]}: worker died: {e!r}")
                continue
            if res["error"]:
                errors.append(f"{t[1]} shard {t[4]}:\n{res['error']}")
            results.setdefault(t[1], []).append(res)

    per_phase = {}
    total = Stats()
    all_dicts = []
    for ph in phases:
        ds = results.get(ph.name, [])
        all_dicts += ds
        st = Stats.merge(ds)
        per_phase[ph.name] = {
            "evaluations": st.evaluations,
            "distinct_nontrivial": st.nontrivial + len(st.nt_hashes),
            "shards": len(ds),
            "kind": ("hypothesis" if ph.strategy is not None else
                     "stateful" if ph.stateful is not None else
                     "custom" if ph.custom is not None else "enumeration"),
            "exhaustive": bool(_tier_val(ph.exhaustive, tier, False)),
            "wall_s": round(max([d["wall"] for d in ds] or [0]), 2),
        }
    total = Stats.merge(all_dicts)

    seen = set()
    for v in total.violations:
        if (v["phase"], v["key"]) in seen:
            continue
        seen.add((v["phase"], v["key"]))
        path = write_violation(v)
        violations.append((path, v["key"], v["detail"]))

    # --- evidence ----------------------------------------------------------
    for k, text in open_known.items():
        if not any(k in line for line in known_lines):
            known_lines.append(f"KNOWN-FINDING: property={pid} {text} [key={k}]")
    exhaustive = bool(phases) and all(
        _tier_val(p.exhaustive, tier, False) for p in phases)
    evidence = {
        "property_id": pid,
        "tier": tier,
        "seed": seed,
        "level": mod.LEVEL,
        "coverage": {
            "evaluations": total.evaluations + n_replays,
            "distinct_nontrivial": total.nontrivial + len(total.nt_hashes),
            "rule": mod.RULE,
            "samples": [{"class": k, "case": v}
                        for k, v in sorted(total.samples.items())],
            "exhaustive": exhaustive,
            "phases": per_phase,
            "class_histogram": dict(sorted(total.classes.items())),
            "replays_run": n_replays,
            "excluded_known_finding_hits": total.known,
            "counters": total.notes,
        },
        "assumptions": list(mod.ASSUMPTIONS),
        "wall_s": round(time.time() - t0, 2),
        "violations": len(violations),
    }
    os.makedirs(EVID, exist_ok=True)
    with open(os.path.join(EVID, f"{pid}.json"), "w") as f:
        json.dump(evidence, f, indent=1, sort_keys=True, default=repr)

    print(f"{pid} tier={tier} seed={seed} evaluations="
          f"{evidence['coverage']['evaluations']} nontrivial="
          f"{evidence['coverage']['distinct_nontrivial']} "
          f"wall={evidence['wall_s']}s")
    for name, pp in per_phase.items():
        print(f"  phase {name}: {pp}")
    for line in known_lines:
        print(line)

    if errors:
        for e in errors[:5]:
            print("HARNESS-ERROR:", e)
        print(f"HARNESS-ERROR property={pid}: {len(errors)} shard(s) failed")
        return 2
    if violations:
        for path, key, detail in violations:
            print(f"--- {key}\n{detail[:1500]}")
            print(f"VIOLATION property={pid} replay={path}")
        return 1
    min_nt = getattr(mod, "MIN_NONTRIVIAL", 2)
    if evidence["coverage"]["distinct_nontrivial"] < min_nt:
        print(f"HARNESS-ERROR property={pid}: only "
              f"{evidence['coverage']['distinct_nontrivial']} non-trivial "
              f"cases (< {min_nt}): inconclusive")
        return 2
    return 0


if __name__ == "__main__":
    sys.exit(main())
