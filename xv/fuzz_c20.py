"""atheris target for C20 (runs under the tooling interpreter, pure stdlib).

bytes -> (x, err) via FuzzedDataProvider; the reader oracle is inside the
target.  Statistics and the first failing input go to $XV_FUZZ_OUT; atexit
does not run under libFuzzer, so the file is rewritten periodically and at the
last run."""
import os
import sys
import json
import math

import atheris

sys.path.insert(0, os.environ.get("PYTHONPATH", "").split(":")[0])
from xv import oracle_c20 as oracle  # noqa

REPO = os.environ.get("VERIF_REPO", "/repo")
OUT = os.environ["XV_FUZZ_OUT"]
RUNS = 0
for a in sys.argv:
    if a.startswith("-runs="):
        RUNS = int(a.split("=")[1])

with atheris.instrument_imports():
    pass

fmt = atheris.instrument_func(oracle.load_function(REPO))

stats = {"evaluations": 0, "nontrivial": 0, "failure": None, "sample": None,
         "rejected": 0, "calls": 0}


def dump():
    with open(OUT + ".tmp", "w") as f:
        json.dump(stats, f)
    os.replace(OUT + ".tmp", OUT)


def decode(data):
    fdp = atheris.FuzzedDataProvider(data)
    mode = fdp.ConsumeIntInRange(0, 3)
    if mode == 0:
        x = fdp.ConsumeFloat()
        err = abs(fdp.ConsumeFloat())
    else:
        # structured: mantissa digits + exponents, so boundaries are reachable
        xm = fdp.ConsumeIntInRange(0, 99999999)
        xe = fdp.ConsumeIntInRange(-300, 299)
        em = fdp.ConsumeIntInRange(1, 99999)
        d = fdp.ConsumeIntInRange(-12, 12)
        neg = fdp.ConsumeBool()
        x = float(f"{'-' if neg else ''}{xm}e{xe - 7}")
        ee = max(-300, min(308, xe + d))
        err = float(f"{em}e{ee - 4}")
    return x, err


def in_domain(x, err):
    if not (math.isfinite(x) and math.isfinite(err)):
        return False
    if not (err > 0):
        return False
    if x != 0:
        if not (1e-300 <= err):
            return False
        if not (1e-300 <= abs(x) <= 1e300):
            return False
        if not (1e-12 <= err / abs(x) <= 1e12):
            return False
    return True


def TestOneInput(data):
    stats["calls"] += 1
    x, err = decode(data)
    if in_domain(x, err):
        stats["evaluations"] += 1
        if stats["sample"] is None:
            stats["sample"] = {"x": x, "err": err}
        if oracle.nontrivial(x, err):
            stats["nontrivial"] += 1
        try:
            s = fmt(x, err)
            bad = oracle.check(x, err, s)
        except Exception as e:  # noqa
            bad = (f"exception:{type(e).__name__}", str(e))
        if bad is not None and stats["failure"] is None:
            stats["failure"] = {"x": x, "err": err, "key": bad[0],
                                "detail": bad[1]}
    else:
        stats["rejected"] += 1
    if stats["calls"] % 20000 == 0 or (RUNS and stats["calls"] >= RUNS - 1):
        dump()


if __name__ == "__main__":
    dump()
    atheris.Setup(sys.argv, TestOneInput)
    atheris.Fuzz()
