"""Reference models and comparison helpers shared by several properties.
Nothing here imports xyzpy."""
import os
import json
import math
import hashlib
import itertools

import numpy as np


# --------------------------------------------------------------------------- #
#                     the harness' own recording function                     #
# --------------------------------------------------------------------------- #

LOG = []     # in-process call log (list.append is atomic under the GIL)


def plain(v):
    """Canonical python value for a (possibly numpy) scalar."""
    if isinstance(v, np.generic):
        v = v.item()
    if isinstance(v, float) and v == 0 and math.copysign(1.0, v) < 0:
        return v            # -0.0 is not the value 0 (atan2, copysign, repr)
    if isinstance(v, float) and math.isfinite(v) and v == int(v) \
            and abs(v) < 2**53:
        # 1.0 and 1 are the same label (hash-equal); canonicalise
        return int(v)
    if isinstance(v, bool):
        return int(v)
    return v


def plain_typed(v):
    """numpy scalar -> python scalar, keeping int and float apart."""
    if isinstance(v, np.generic):
        v = v.item()
    return v


def canon_kw(kw):
    return json.dumps(sorted((k, plain(v)) for k, v in kw.items()),
                      default=repr)


def kw_number(kw, salt=0):
    """Injective (up to 52-bit hash collisions) number for a kwargs dict."""
    h = hashlib.blake2b((canon_kw(kw) + f"#{salt}").encode(),
                        digest_size=8).digest()
    return int.from_bytes(h, "big") >> 12


def result_of(kind, kw):
    """The value the recording function returns for kwargs ``kw``."""
    n = kw_number(kw)
    if kind == "int":
        return n
    if kind == "float":
        return n / 1024.0
    if kind == "bool":
        return bool(n & 1)
    if kind == "str":
        return canon_kw(kw)
    if kind == "huge":
        # more than a MiB in one contiguous buffer
        return np.arange(140000, dtype=float) + (n % 4096)
    if kind == "big":
        # > 8 KiB per batch of a few settings: several buffered-write chunks
        return (canon_kw(kw) + "|") * 300
    if kind == "tuple2":
        return (n, canon_kw(kw))
    if kind == "tuple3":
        return (n, float(n % 1000) / 8, [n % 7, n % 11])
    if kind == "tuple_arr":
        return (float(n % 4096), np.arange(3) + (n % 1000))
    if kind == "tuple_intarr":
        return (n % 977, np.array([n % 5, n % 7, n % 9], dtype=np.int64),
                np.array([bool(n & 1), bool(n & 2)]))
    if kind == "tuple_empty":
        # (an array that happens to have no element is a result too)
        return (float(n % 4096), np.zeros(0), np.arange(2.0) + (n % 512))
    if kind == "intarr2d":
        return np.arange(6, dtype=np.int64).reshape(2, 3) + (n % 4096)
    if kind == "tuple_strarr":
        return (float(n % 31), np.array(["s%d" % (n % 3), "t%d" % (n % 5)]))
    if kind == "tuple_2d":
        return (float(n % 512), [[n % 5, n % 7, n % 9], [n % 11, n % 13, 1]])
    if kind == "nested":
        return [[n % 1000, n % 1001], [n % 1002, n % 1003]]
    if kind == "ndarray":
        return np.array([n % 4096, (n >> 12) % 4096, (n >> 24) % 4096],
                        dtype=float)
    if kind == "ndarray2d":
        return np.arange(6, dtype=float).reshape(2, 3) + (n % 4096)
    if kind == "dict":
        return {"u": float(n % 4096), "v": float((n >> 12) % 4096)}
    if kind == "dataset":
        import xarray as xr
        return xr.Dataset({"u": ((), float(n % 4096)),
                           "w": (("t",), np.arange(2.0) + (n % 512))},
                          coords={"t": [10, 20]})
    raise ValueError(kind)


def record_fn(_xv=("int", None), **kw):
    """Module-level (hence picklable) recording function.  ``_xv`` is bound
    with functools.partial: (result kind, log file or None)."""
    kind, logfile = _xv[:2]
    if len(_xv) > 3 and _xv[3]:
        # a function that seeds the global generators from its arguments, as
        # simulation codes do for reproducibility
        import random
        random.seed(kw_number(kw))
        np.random.seed(kw_number(kw) % 2**32)
    if len(_xv) > 2 and isinstance(_xv[2], (list, tuple)) and \
            _xv[2] and _xv[2][0] == "hold":
        # ("hold", yield path, a file, actor name): the named actor stays in
        # here - letting everybody else run - until the file is gone
        import threading
        _, ypath, gone, who = _xv[2]
        os.path.exists(ypath)
        if threading.current_thread().name == who:
            for _ in range(400):
                if not os.path.lexists(gone):
                    break
                os.path.exists(ypath)
    elif len(_xv) > 2 and isinstance(_xv[2], str):
        # a path to look at: under a harness-owned scheduler that is a point
        # at which the function can be overtaken by the other actors
        os.path.exists(_xv[2])
    elif len(_xv) > 2 and _xv[2]:
        # (delay, n): earlier settings take longer, so that anything
        # collecting results in completion order gets them reversed
        import time
        delay, n = _xv[2]
        if not n:
            # about every other setting takes a while, whatever it is called
            if kw_number(kw, salt=3) % 2 == 0:
                time.sleep(delay)
        else:
            time.sleep(delay * max(0.0, (n - float(kw.get("a", 0))) / n))
    if logfile is None:
        LOG.append(dict(kw))
    else:
        line = (canon_kw(kw) + "\n").encode()
        fd = os.open(logfile, os.O_WRONLY | os.O_APPEND | os.O_CREAT, 0o644)
        try:
            os.write(fd, line)
        finally:
            os.close(fd)
    return result_of(kind, kw)


def failing_at(_xv=("int", None), **kw):
    """Like the recording function (no log), but raises FlakyError at the one
    setting written (canonically) in the side file _xv[1]."""
    kind, targetfile = _xv
    try:
        with open(targetfile) as f:
            target = f.read()
    except FileNotFoundError:
        target = None
    if target is not None and canon_kw(kw) == target:
        raise FlakyError(f"told to fail at {target}")
    return result_of(kind, kw)


def read_log(logfile):
    if logfile is None:
        return [canon_kw(kw) for kw in LOG]
    if not os.path.exists(logfile):
        return []
    with open(logfile) as f:
        return [l.rstrip("\n") for l in f if l.strip()]


# --------------------------------------------------------------------------- #
#                              deep comparison                                #
# --------------------------------------------------------------------------- #

def is_nan(v):
    try:
        return isinstance(v, (float, np.floating)) and math.isnan(v)
    except Exception:
        return False


def deep_eq(a, b):
    """Structural equality: sequences element-wise (tuple/list agnostic),
    arrays by shape and value (NaN == NaN), xarray objects by identical()."""
    try:
        import xarray as xr
        if isinstance(a, (xr.Dataset, xr.DataArray)) or \
                isinstance(b, (xr.Dataset, xr.DataArray)):
            return type(a) is type(b) and a.identical(b)
    except ImportError:
        pass
    if isinstance(a, np.ndarray) or isinstance(b, np.ndarray):
        a, b = np.asarray(a), np.asarray(b)
        if a.shape != b.shape:
            return False
        if a.dtype.kind in "fc" or b.dtype.kind in "fc":
            try:
                return bool(np.array_equal(a, b, equal_nan=True))
            except TypeError:
                return bool(np.array_equal(a, b))
        return bool(np.array_equal(a, b))
    if isinstance(a, dict) or isinstance(b, dict):
        return (isinstance(a, dict) and isinstance(b, dict)
                and a.keys() == b.keys()
                and all(deep_eq(a[k], b[k]) for k in a))
    if isinstance(a, (list, tuple)) or isinstance(b, (list, tuple)):
        return (isinstance(a, (list, tuple)) and isinstance(b, (list, tuple))
                and len(a) == len(b)
                and all(deep_eq(x, y) for x, y in zip(a, b)))
    if is_nan(a) and is_nan(b):
        return True
    if isinstance(a, bool) != isinstance(b, bool):
        return False
    try:
        return bool(a == b)
    except Exception:
        return False


def nested(values_lists, leaf, prefix=()):
    """Nested tuple over the product of ``values_lists`` in the given order,
    ``leaf(tuple_of_values)`` at the bottom (the direct nested-loop model)."""
    if not values_lists:
        return leaf(prefix)
    first, *rest = values_lists
    return tuple(nested(rest, leaf, prefix + (v,)) for v in first)


# --------------------------------------------------------------------------- #
#                         missing-value placeholders                          #
# --------------------------------------------------------------------------- #

def shape_of(x):
    if isinstance(x, str):
        return ()
    try:
        if len(x) == 0:
            return (0,)
        return (len(x),) + shape_of(x[0])
    except TypeError:
        return ()


def all_null(x):
    if x is None:
        return True
    if isinstance(x, (str, bytes)):
        return False            # the TEXT 'nan' is data, not a missing value
    if isinstance(x, np.ndarray) and x.dtype.kind in "US":
        return False
    try:
        arr = np.asarray(x, dtype=float)
    except (TypeError, ValueError):
        try:
            arr = np.asarray(x, dtype=object)
            return all(v is None or is_nan(v) for v in arr.ravel())
        except Exception:
            return False
    return bool(np.isnan(arr).all())


def placeholder_problem(cell, example):
    """None if ``cell`` is an acceptable all-missing stand-in for a result
    shaped like ``example`` (C02 statement), else a description."""
    try:
        import xarray as xr
    except ImportError:
        xr = None
    if isinstance(example, dict) and xr is not None:
        example = xr.Dataset(example)
    if xr is not None and isinstance(example, (xr.Dataset, xr.DataArray)):
        if type(cell) is not type(example):
            return f"placeholder {type(cell).__name__} for a Dataset result"
        if isinstance(example, xr.Dataset):
            if set(cell.data_vars) != set(example.data_vars):
                return "placeholder dataset has other variables"
            for v in example.data_vars:
                if cell[v].dims != example[v].dims or \
                        cell[v].shape != example[v].shape:
                    return f"placeholder variable {v} has other dims/shape"
                if not bool(cell[v].isnull().all()):
                    return f"placeholder variable {v} is not all-null"
        else:
            if cell.dims != example.dims or cell.shape != example.shape \
                    or not bool(cell.isnull().all()):
                return "placeholder DataArray mismatch"
        return None
    if isinstance(example, (bool, str, np.bool_)):
        if cell is None or is_nan(cell):
            return None
        return f"placeholder {cell!r} for a bool/str result"
    if isinstance(example, (int, float, complex, np.number)):
        if is_nan(cell) or (isinstance(cell, np.ndarray) and cell.shape == ()
                            and all_null(cell)):
            return None
        return f"placeholder {cell!r} for a numeric result"
    # sequence-like results: same length, every element all-missing with the
    # element's shape
    try:
        n = len(example)
    except TypeError:
        return None if all_null(cell) else f"placeholder {cell!r}"
    try:
        if len(cell) != n:
            return f"placeholder of length {len(cell)} for a result of " \
                   f"length {n}"
    except TypeError:
        return f"placeholder {cell!r} for a result of length {n}"
    for c, e in zip(cell, example):
        if isinstance(e, (bool, str, np.bool_)):
            if not (c is None or all_null(c)):
                return f"placeholder element {c!r} for bool/str element"
            continue
        if not all_null(c):
            return f"placeholder element {c!r} is not all-missing"
        if np.shape(c) != shape_of(e) and np.shape(c) != np.shape(e):
            return f"placeholder element shape {np.shape(c)} for element " \
                   f"shape {shape_of(e)}"
    return None


# --------------------------------------------------------------------------- #
#            a function whose failures are controlled from outside            #
# --------------------------------------------------------------------------- #

class FlakyError(RuntimeError):
    pass


def flaky_fn(_xv=None, **kw):
    """_xv = (failfile, kind).  Raises FlakyError if kw['a'] is listed in the
    JSON side file (which may change after the crop was sown)."""
    failfile, kind = _xv
    LOG.append(dict(kw))
    try:
        with open(failfile) as f:
            bad = json.load(f)
    except FileNotFoundError:
        bad = []
    exc = "flaky"
    if isinstance(bad, dict):
        bad, exc = bad["vals"], bad.get("exc", "flaky")
    if plain(kw.get("a")) in bad:
        msg = f"told to fail at a={kw.get('a')}"
        if exc == "stop":
            raise StopIteration(msg)
        if exc == "key":
            raise KeyError(msg)
        if exc == "value":
            raise ValueError(msg)
        if exc == "eof":
            raise EOFError(msg)
        if exc == "notfound":
            raise FileNotFoundError(msg)      # (an OSError, like the ones
        if exc == "timeout":                  # a function reading its own
            raise TimeoutError(msg)           # input files may raise)
        if exc == "unpicklable":
            # no exception here: the RESULT cannot be written to disk
            return (i for i in (1, 2, 3))
        raise FlakyError(msg)
    return result_of(kind, kw)
