import sys
from xv.core import main
sys.exit(main())
